import sys, tempfile, shutil, os
sys.modules['zarr'] = None
from typing import Tuple, List, Optional
from pipefunc import Pipeline, pipefunc, PipeFunc
from crosshair.tracers import NoTracing
import numpy as np

def build():
    @pipefunc(output_name=("u", "v"), mapspec="a[i], b[j], c[k] -> u[i, j, k, m], v[i, j, k, m]", internal_shape=(2,))
    def f(a, b, c):
        base = 3 * a + 5 * b + 7 * c
        return [base + 1, base + 2], [2 * base + 11, 2 * base + 13]
    @pipefunc(output_name="r", mapspec="u[i, :, k, :], v[i, j, k, m] -> r[i, j, k, m]")
    def g(u, v):
        tot = 0
        for jj in range(u.shape[0]):
            for mm in range(u.shape[1]):
                tot = tot + (jj * 3 + mm + 2) * u[jj, mm]
        return tot + 17 * v
    return Pipeline([f, g])

def heavy(na: int, nb: int, nc: int, a0: int, a1: int, a2: int, b0: int, b1: int, b2: int, c0: int, c1: int, c2: int) -> bool:
    """
    pre: 1 <= na <= 3 and 1 <= nb <= 3 and 1 <= nc <= 3
    post: _
    """
    with NoTracing():
        p = build()
    a = [a0, a1, a2][:na]; b = [b0, b1, b2][:nb]; c = [c0, c1, c2][:nc]
    res = p.map({"a": a, "b": b, "c": c}, storage="dict", parallel=False)
    u = res["u"].output; v = res["v"].output; r = res["r"].output
    ok = u.shape == (len(a), len(b), len(c), 2) and r.shape == u.shape
    for i in range(len(a)):
        for k in range(len(c)):
            tot = 0
            for j in range(len(b)):
                base = 3 * a[i] + 5 * b[j] + 7 * c[k]
                for m in range(2):
                    ok = ok and u[i, j, k, m] == base + 1 + m and v[i, j, k, m] == 2 * base + 11 + 2 * m
                    tot = tot + (j * 3 + m + 2) * (base + 1 + m)
            for j in range(len(b)):
                base = 3 * a[i] + 5 * b[j] + 7 * c[k]
                for m in range(2):
                    ok = ok and r[i, j, k, m] == tot + 17 * (2 * base + 11 + 2 * m)
    return ok

import sys
sys.modules['zarr'] = None
from typing import Tuple, List, Optional
from pipefunc.map._mapspec import MapSpec, ArraySpec

def roundtrip(n1: str, n2: str, i: str, j: str, colon: bool) -> bool:
    """
    pre: len(n1) <= 3 and len(n2) <= 3 and len(i) <= 2 and len(j) <= 2
    pre: n1.isidentifier() and n2.isidentifier() and i.isidentifier() and j.isidentifier()
    pre: n1 != n2 and i != j
    post: _
    """
    m = MapSpec((ArraySpec(n1, (i, None if colon else j)),), (ArraySpec(n2, (i,) if colon else (i, j)),))
    return MapSpec.from_string(str(m)) == m

def roundtrip_ascii(n1: str, n2: str, i: str, j: str, colon: bool) -> bool:
    """
    pre: len(n1) <= 3 and len(n2) <= 3 and len(i) <= 2 and len(j) <= 2
    pre: n1.isascii() and n2.isascii() and i.isascii() and j.isascii()
    pre: n1.isidentifier() and n2.isidentifier() and i.isidentifier() and j.isidentifier()
    pre: n1 != n2 and i != j
    post: _
    """
    m = MapSpec((ArraySpec(n1, (i, None if colon else j)),), (ArraySpec(n2, (i,) if colon else (i, j)),))
    return MapSpec.from_string(str(m)) == m

import sys
sys.modules['zarr'] = None
from typing import Tuple, List, Optional
from pipefunc.cache import HybridCache

def hybrid_step(c0: int, c1: int, d0: float, d1: float, d2: float, k: int) -> bool:
    """
    pre: c0 >= 1 and c1 >= 1
    pre: 0.0 <= d0 <= 1000.0 and 0.0 <= d1 <= 1000.0 and 0.0 <= d2 <= 1000.0
    pre: 0 <= k <= 2
    post: _
    """
    c = HybridCache(max_size=2, shared=False)
    c._cache_dict = {0: "v0", 1: "v1"}
    c._access_counts = {0: c0, 1: c1}
    c._computation_durations = {0: d0, 1: d1}
    c.put(k, "new", d2)
    ok = len(c) <= 2 and (k in c) and c.get(k) == "new"
    return ok

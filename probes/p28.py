import sys, tempfile, shutil, os, pathlib
sys.modules['zarr'] = None
from typing import Tuple, List, Optional
import p11  # token pickle for cloudpickle
from pipefunc.cache import DiskCache, HybridCache, memoize
from crosshair.tracers import NoTracing

def disk_step(k0: int, k1: int, k: int, v: int, op: int) -> bool:
    """
    pre: 0 <= k0 <= 2 and 0 <= k1 <= 2 and k0 != k1 and 0 <= k <= 2 and 0 <= op <= 1
    post: _
    """
    with NoTracing():
        p11.TOK.clear()
        d = tempfile.mkdtemp(dir="/dev/shm")
    try:
        c = DiskCache(d, max_size=2, with_lru_cache=False)
        c.put(k0, 100); c.put(k1, 101)
        model = {k0: 100, k1: 101}
        if op == 0:
            c.put(k, v)
            if k not in model and len(model) >= 2:
                pass  # eviction choice depends on ctime; only check size + new key
            model[k] = v
            return len(c) <= 2 and (k in c) and c.get(k) == v
        got = c.get(k)
        return got == model.get(k) and (k in c) == (k in model) and len(c) == 2
    finally:
        with NoTracing():
            shutil.rmtree(d, ignore_errors=True)

def hybrid_time(x: int) -> bool:
    """
    pre: 0 <= x <= 1
    post: _
    """
    c = HybridCache(max_size=1, shared=False)
    calls = []
    @memoize(cache=c)
    def f(a):
        calls.append(a)
        return 3 * a + 1
    r1 = f(x); r2 = f(x); r3 = f(x + 1); r4 = f(x)
    return r1 == r2 == 3 * x + 1 and r3 == 3 * x + 4 and r4 == r1 and len(calls) >= 2

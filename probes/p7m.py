import sys
sys.modules['zarr'] = None
import pipefunc.map._mapspec as M
orig = M._shape_to_key
def mutated(shape, linear_index):
    k = orig(shape, linear_index)
    if len(shape) == 2 and shape[0] == 3 and shape[1] == 2:
        return tuple(reversed(orig(tuple(reversed(shape)), linear_index)))
    return k
M._shape_to_key = mutated
from p7 import *

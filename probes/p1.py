import sys
sys.modules['zarr'] = None
from typing import Tuple, List
from pipefunc.map._mapspec import _shape_to_key, shape_to_strides

def key_roundtrip3(d0: int, d1: int, d2: int, idx: int) -> bool:
    """
    pre: 1 <= d0 <= 4 and 1 <= d1 <= 4 and 1 <= d2 <= 4
    pre: 0 <= idx < d0 * d1 * d2
    post: _
    """
    shape = (d0, d1, d2)
    key = _shape_to_key(shape, idx)
    strides = shape_to_strides(shape)
    return (all(0 <= k < d for k, d in zip(key, shape))
            and sum(k * s for k, s in zip(key, strides)) == idx)

def key_roundtrip_sym(shape: Tuple[int, ...], idx: int) -> bool:
    """
    pre: len(shape) <= 3
    pre: all(1 <= d <= 4 for d in shape)
    pre: 0 <= idx
    post: _
    """
    n = 1
    for d in shape:
        n *= d
    if idx >= n:
        return True
    key = _shape_to_key(shape, idx)
    strides = shape_to_strides(shape)
    return (all(0 <= k < d for k, d in zip(key, shape))
            and sum(k * s for k, s in zip(key, strides)) == idx)

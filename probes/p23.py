import sys
sys.modules['zarr'] = None
from typing import Tuple, List, Optional, Union, Dict, Set
import collections
from pipefunc.cache import to_hashable

def lists(n1: int, n2: int, a0: int, a1: int, a2: int, b0: int, b1: int, b2: int) -> bool:
    """
    pre: 0 <= n1 <= 3 and 0 <= n2 <= 3
    post: _
    """
    a = [a0, a1, a2][:n1]; b = [b0, b1, b2][:n2]
    ka = to_hashable(a); kb = to_hashable(b)
    same = (n1 == n2) and all(x == y for x, y in zip(a, b))
    return (ka == kb) == same and to_hashable(tuple(a)) != ka and to_hashable([tuple(a)]) != to_hashable([a])

def dicts(a0: int, a1: int, b0: int, b1: int, v0: int, v1: int, w0: int, w1: int) -> bool:
    """
    pre: a0 != a1 and b0 != b1 and 0 <= a0 <= 2 and 0 <= a1 <= 2 and 0 <= b0 <= 2 and 0 <= b1 <= 2
    post: _
    """
    d1 = {a0: v0, a1: v1}; d2 = {b0: w0, b1: w1}
    k1 = to_hashable(d1); k2 = to_hashable(d2)
    same = (a0 == b0 and a1 == b1 and v0 == w0 and v1 == w1) or (a0 == b1 and a1 == b0 and v0 == w1 and v1 == w0)
    od = to_hashable(collections.OrderedDict([(a0, v0), (a1, v1)]))
    return (k1 == k2) == same and od != k1

def nested(a0: int, a1: int, b0: int, b1: int) -> bool:
    """
    post: _
    """
    v1 = {"k": [a0, (a1, [a0])]}; v2 = {"k": [b0, (b1, [b0])]}
    return (to_hashable(v1) == to_hashable(v2)) == (a0 == b0 and a1 == b1)

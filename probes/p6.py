import sys
sys.modules['zarr'] = None
from typing import Tuple, List, Optional
from pipefunc import Pipeline, pipefunc, PipeFunc
from crosshair.tracers import NoTracing

def build():
    @pipefunc(output_name="c")
    def f(a, b=7):
        return 3 * a + 5 * b + 1
    @pipefunc(output_name=("d", "e"))
    def g(c, x):
        return (2 * c + 11 * x + 2, 13 * c + 17 * x + 3)
    @pipefunc(output_name="h")
    def h(d, e, a):
        return 19 * d + 23 * e + 29 * a + 4
    return Pipeline([h, g, f])

def run_eq(a: int, b: int, x: int, use_b: bool) -> bool:
    """
    post: _
    """
    with NoTracing():
        p = build()
    kw = {"a": a, "x": x}
    if use_b:
        kw["b"] = b
    got = p("h", **kw)
    bb = b if use_b else 7
    c = 3 * a + 5 * bb + 1
    d = 2 * c + 11 * x + 2
    e = 13 * c + 17 * x + 3
    return got == 19 * d + 23 * e + 29 * a + 4

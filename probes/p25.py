import sys
sys.modules['zarr'] = None
from pipefunc.map._mapspec import MapSpec, ArraySpec
NAMES = ["a", "b1", "_c", "s.x", "é"]
IDX = ["i", "j", "k"]

def roundtrip(nin: int, r0: int, r1: int, x00: int, x01: int, x02: int, x10: int, x11: int, x12: int, nout: int, ws: int) -> bool:
    """
    pre: 0 <= nin <= 2 and 1 <= r0 <= 3 and 1 <= r1 <= 3 and 1 <= nout <= 2 and 0 <= ws <= 3
    pre: all(-1 <= x <= 2 for x in (x00, x01, x02, x10, x11, x12))
    post: _
    """
    def ax(x):
        return None if x < 0 else IDX[x]
    ins = []
    if nin >= 1:
        ins.append(ArraySpec(NAMES[0], tuple(ax(x) for x in (x00, x01, x02)[:r0])))
    if nin >= 2:
        ins.append(ArraySpec(NAMES[3], tuple(ax(x) for x in (x10, x11, x12)[:r1])))
    outs = [ArraySpec(NAMES[1], tuple(IDX))]
    if nout == 2:
        outs.append(ArraySpec(NAMES[4], tuple(IDX)))
    m = MapSpec(tuple(ins), tuple(outs))
    s = str(m)
    if ws == 1: s = s.replace(", ", ",")
    if ws == 2: s = s.replace("->", " ->  ")
    if ws == 3: s = "  " + s + " "
    m2 = MapSpec.from_string(s)
    return m2 == m and str(m2) == str(m)

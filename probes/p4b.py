import sys
sys.modules['zarr'] = None
from typing import Tuple, List
from pipefunc.cache import LRUCache
import p4

class Fixed(LRUCache):
    def put(self, key, value):
        with self._cache_lock:
            if key in self._cache_dict:
                self._cache_queue.remove(key)
            elif len(self._cache_queue) >= self.max_size:
                ev = self._cache_queue.pop(0)
                self._cache_dict.pop(ev)
            self._cache_dict[key] = value
            self._cache_queue.append(key)
p4.LRUCache = Fixed

def lru_history(max_size: int, ops: List[Tuple[int, int, int]]) -> bool:
    """
    pre: 1 <= max_size <= 3
    pre: len(ops) <= 4
    pre: all(0 <= op <= 1 and 0 <= k <= 3 for op, k, v in ops)
    post: _
    """
    return p4.lru_history.__wrapped__(max_size, ops) if hasattr(p4.lru_history,'__wrapped__') else p4.lru_history(max_size, ops)

import sys, time, inspect
sys.modules['zarr'] = None
import z3
from pyz3 import Engine, Raised, DIGIT, is_sym
import pipefunc.resources as RES
from pipefunc.resources import Resources


UNITS = ["B", "KB", "MB", "GB", "TB", "PB"]
def structured_memory(name, hasf, unit=None):
    ip = z3.String(name + "_ip"); fp = z3.String(name + "_fp"); u = z3.String(name + "_u") if unit is None else z3.StringVal(unit)
    s = z3.Concat(ip, z3.StringVal("."), fp, u) if hasf else z3.Concat(ip, u)
    cons = [z3.InRe(ip, z3.Loop(DIGIT, 1, 4)), z3.InRe(fp, z3.Loop(DIGIT, 1, 2)),
            # arithmetic lemmas implied by the two memberships (kept so that the abstraction stays precise)
            z3.Length(ip) >= 1, z3.Length(ip) <= 4, z3.Length(fp) >= 1, z3.Length(fp) <= 2, z3.StrToInt(ip) >= 0, z3.StrToInt(fp) >= 0,
            z3.Or([u == z3.StringVal(x) for x in UNITS])]
    val = z3.ToReal(z3.StrToInt(ip))
    if hasf:
        val = val + z3.If(z3.Length(fp) == 1, z3.ToReal(z3.StrToInt(fp)) / 10, z3.ToReal(z3.StrToInt(fp)) / 100)
    if unit is not None:
        return s, val * (1000 ** UNITS.index(unit)), cons[:-1]
    size = val
    for k_, x in enumerate(UNITS):
        if k_:
            size = z3.If(u == z3.StringVal(x), val * (1000 ** k_), size)
    return s, size, cons

tot_viol = 0; tot_q = 0; tot_s = 0.0; T0 = time.time(); funcs = set()
import itertools
combos = [(hf1, hf2, u1, u2) for hf1 in (False, True) for hf2 in (False, True) for u1 in UNITS for u2 in UNITS]
if len(sys.argv) > 1:
    combos = [c for c in combos if (c[0], c[1]) == (False, True)][:: int(sys.argv[1])]
for hf1, hf2, u1, u2 in combos:
  if True:
    eng = Engine(vars(RES))
    M1, g1, c1 = structured_memory("m1", hf1, u1)
    M2, g2, c2 = structured_memory("m2", hf2, u2)
    eng.base = c1 + c2
    def thunk():
        r1 = eng.construct(Resources, {"memory": M1})
        r2 = eng.construct(Resources, {"memory": M2})
        cm = inspect.getattr_static(Resources, "combine_max")
        return eng.apply(cm, [[r1, r2]], {})
    paths = eng.explore(thunk)
    for pc, (kind, v) in paths:
        eng.pc = pc
        if kind == "raise":
            sat, model = eng.check()
            if sat: print("  valid memory rejected:", v, model.eval(M1), model.eval(M2)); tot_viol += 1
            continue
        mem = v.fields["memory"]
        if mem is None:
            sat, model = eng.check()
            if sat: print("  memory dropped:", model.eval(M1), model.eval(M2)); tot_viol += 1
            continue
        which = [z3.BoolVal(mem is M1), z3.BoolVal(mem is M2)]
        prop = z3.Or(z3.And(which[0], g1 >= g2), z3.And(which[1], g2 >= g1))
        if eng.check_abstract(z3.Not(prop)):
            continue
        sat, model = eng.check(z3.Not(prop))
        if sat: print("  not max:", model.eval(M1), model.eval(M2), "->", model.eval(mem)); tot_viol += 1
    print(f"units=({u1},{u2}) hasf=({hf1},{hf2}) paths={len(paths)} queries={eng.queries} solver_s={eng.solver_s:.2f}")
    tot_q += eng.queries; tot_s += eng.solver_s; funcs |= eng.functions
print("functions encoded:", sorted(funcs))
print("queries", tot_q, "solver_s", round(tot_s, 2), "wall", round(time.time() - T0, 2), "violating paths", tot_viol)

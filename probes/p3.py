import sys
sys.modules['zarr'] = None
from typing import Tuple, List, Union, Optional
from pipefunc.map._storage_array._base import normalize_key, select_by_mask

def ref_normalize(key, full_shape):
    out = []
    for k, n in zip(key, full_shape):
        if isinstance(k, slice):
            out.append(k)
        else:
            if not (-n <= k < n):
                raise IndexError
            out.append(k % n)
    return tuple(out)

def nk_getitem(key: Tuple[int, ...], mask: Tuple[bool, ...], shape: Tuple[int, ...], internal: Tuple[int, ...]) -> bool:
    """
    pre: len(mask) <= 3
    pre: len(shape) == sum(1 for m in mask if m)
    pre: len(internal) == len(mask) - len(shape)
    pre: all(1 <= d <= 5 for d in shape) and all(1 <= d <= 5 for d in internal)
    pre: len(key) <= 4
    post: _
    """
    full = select_by_mask(mask, shape, internal)
    try:
        got = normalize_key(key, shape, internal, mask)
    except IndexError:
        got = "IndexError"
    if len(key) != len(mask):
        exp = "IndexError"
    else:
        try:
            exp = ref_normalize(key, full)
        except IndexError:
            exp = "IndexError"
    return got == exp

def nk_dump(key: Tuple[int, ...], mask: Tuple[bool, ...], shape: Tuple[int, ...], internal: Tuple[int, ...]) -> bool:
    """
    pre: len(mask) <= 3
    pre: len(shape) == sum(1 for m in mask if m)
    pre: len(internal) == len(mask) - len(shape)
    pre: all(1 <= d <= 5 for d in shape) and all(1 <= d <= 5 for d in internal)
    pre: len(key) <= 4
    post: _
    """
    try:
        got = normalize_key(key, shape, internal, mask, for_dump=True)
    except IndexError:
        got = "IndexError"
    if len(key) != len(shape):
        exp = "IndexError"
    else:
        try:
            exp = ref_normalize(key, shape)
        except IndexError:
            exp = "IndexError"
    return got == exp

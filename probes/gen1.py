"""Probe: generic MAP harness = template (list of function specs) + distinguishing linear forms
+ independent denotational evaluator.  Not framework code; measures feasibility/cost."""
import sys, itertools, re
sys.modules['zarr'] = None
import numpy as np
from pipefunc import Pipeline, PipeFunc
from crosshair.tracers import NoTracing

PRIMES = [3, 5, 7, 11, 13, 17, 19, 23, 29, 31, 37, 41, 43, 47, 53, 59, 61, 67, 71, 73]

# ---------- own tiny spec parser (independent of pipefunc.map._mapspec) ----------
def parse_side(s):
    s = s.strip()
    if s == "...":
        return []
    out = []
    for m in re.finditer(r"([A-Za-z_][\w.]*)\[([^\]]*)\]", s):
        axes = tuple(None if a.strip() == ":" else a.strip() for a in m.group(2).split(","))
        out.append((m.group(1), axes))
    return out
def parse_spec(s):
    l, r = s.split("->")
    return parse_side(l), parse_side(r)

# ---------- nested-list helpers (reference side never uses numpy) ----------
def shape_of(x):
    sh = []
    while isinstance(x, list):
        sh.append(len(x)); x = x[0] if x else None
    return tuple(sh)
def get(x, idx):
    for i in idx:
        x = x[i]
    return x
def build(shape, f):
    def rec(prefix, rest):
        if not rest:
            return f(tuple(prefix))
        return [rec(prefix + [i], rest[1:]) for i in range(rest[0])]
    return rec([], list(shape))
def select(x, key):  # key: tuple of int | None(=full slice)
    if not key:
        return x
    k, rest = key[0], key[1:]
    if k is None:
        return [select(e, rest) for e in x]
    return select(x[k], rest)
def fold(x, w):
    """weighted fold of nested list / scalar into a scalar linear form"""
    if not isinstance(x, list):
        return x
    tot = 0; n = [0]
    def rec(y):
        nonlocal tot
        if isinstance(y, list):
            for e in y: rec(e)
        else:
            n[0] += 1; tot = tot + (n[0] * w + 1) * y
    rec(x); return tot
def tolist(x):
    if isinstance(x, np.ndarray):
        return [tolist(e) for e in x] if x.ndim else x.item()
    if isinstance(x, list):
        return [tolist(e) for e in x]
    return x

# ---------- template -> real pipeline + reference ----------
class FSpec:
    def __init__(self, name, params, outputs, mapspec=None, internal=None):
        self.name, self.params, self.outputs, self.mapspec, self.internal = name, params, outputs, mapspec, internal

def form(fi, oi, args):
    """distinguishing linear form for output oi of function fi"""
    tot = 1000 * (fi + 1) + 100 * oi
    for pi, a in enumerate(args):
        tot = tot + PRIMES[(fi * 5 + pi + oi * 3) % len(PRIMES)] * fold(a, pi + 2)
    return tot

def make_pipeline(template, log):
    funcs = []
    for fi, fs in enumerate(template):
        def body(*args, _fi=fi, _fs=fs):
            log.append(_fs.name)
            args = [tolist(a) for a in args]
            outs = []
            for oi in range(len(_fs.outputs)):
                if _fs.internal:
                    outs.append(build(_fs.internal, lambda idx: form(_fi, oi, args) + sum((d + 1) * 7 ** k for k, d in enumerate(idx))))
                else:
                    outs.append(form(_fi, oi, args))
            return tuple(outs) if len(outs) > 1 else outs[0]
        src = f"def {fs.name}({', '.join(fs.params)}):\n    return _body({', '.join(fs.params)})\n"
        ns = {"_body": body}; exec(src, ns)
        on = tuple(fs.outputs) if len(fs.outputs) > 1 else fs.outputs[0]
        funcs.append(PipeFunc(ns[fs.name], on, mapspec=fs.mapspec, internal_shape=fs.internal))
    return Pipeline(funcs)

def reference(template, inputs):
    """denotational semantics of the statement of C01, on nested lists"""
    env = {k: tolist(v) for k, v in inputs.items()}
    for fi, fs in enumerate(template):  # templates are listed in dependency order
        def call(args):
            outs = []
            for oi in range(len(fs.outputs)):
                if fs.internal:
                    outs.append(build(fs.internal, lambda idx: form(fi, oi, args) + sum((d + 1) * 7 ** k for k, d in enumerate(idx))))
                else:
                    outs.append(form(fi, oi, args))
            return outs
        if fs.mapspec is None or not parse_spec(fs.mapspec)[0]:
            outs = call([env[p] for p in fs.params])
            for o, v in zip(fs.outputs, outs): env[o] = v
            continue
        ins, outs_spec = parse_spec(fs.mapspec)
        out_axes = outs_spec[0][1]
        size = {}
        for name, axes in ins:
            sh = shape_of(env[name])
            for ax, n in zip(axes, sh):
                if ax is not None: size[ax] = n
        ext = [ax for ax in out_axes if ax in size]
        results = {}
        for idx in itertools.product(*[range(size[a]) for a in ext]):
            bind = dict(zip(ext, idx))
            args = []
            for p in fs.params:
                spec = [axes for name, axes in ins if name == p]
                if spec:
                    args.append(select(env[p], tuple(None if a is None else bind[a] for a in spec[0])))
                else:
                    args.append(env[p])
            results[idx] = call(args)
        for oi, o in enumerate(fs.outputs):
            def at(full, oi=oi):
                bind_e = tuple(i for i, a in zip(full, out_axes) if a in size)
                int_i = tuple(i for i, a in zip(full, out_axes) if a not in size)
                v = results[bind_e][oi]
                return get(v, int_i) if int_i else v
            full_shape = []; k = 0
            for a in out_axes:
                if a in size: full_shape.append(size[a])
                else: full_shape.append(fs.internal[k]); k += 1
            env[o] = build(tuple(full_shape), at)
    return env

def check(template, inputs, storage="dict", **kw):
    log = []
    with NoTracing():
        p = make_pipeline(template, log)
    res = p.map(dict(inputs), storage=storage, parallel=False, **kw)
    ref = reference(template, inputs)
    ok = True
    for fs in template:
        for o in fs.outputs:
            got = res[o].output
            exp = ref[o]
            if isinstance(exp, list):
                sh = shape_of(exp)
                gsh = tuple(got.shape) if isinstance(got, np.ndarray) else shape_of(got)
                ok = ok and gsh == sh
                if not ok: return False
                for idx in itertools.product(*[range(n) for n in sh]):
                    g = got[idx] if isinstance(got, np.ndarray) else get(got, idx)
                    ok = ok and g == get(exp, idx)
            else:
                ok = ok and got == exp
    return ok

T4 = [FSpec("f", ["a", "b"], ["y"], "a[i], b[j] -> y[i, j]"),
      FSpec("g", ["y"], ["r"], "y[i, :] -> r[i]"),
      FSpec("h", ["y"], ["s"], "y[:, j] -> s[j]"),
      FSpec("n", ["r", "s"], ["t"])]
T7 = [FSpec("f", ["a"], ["y"], "a[i] -> y[i, k]", internal=(2,)),
      FSpec("g", ["y"], ["w"], "y[i, k] -> w[k, i]")]
T8 = [FSpec("f", ["a", "c"], ["u", "v"], "a[i] -> u[i], v[i]"),
      FSpec("g", ["u"], ["p"], "u[i] -> p[i]"),
      FSpec("h", ["v", "u"], ["q"])]
T6 = [FSpec("gen", ["n"], ["v"], "... -> v[j]", internal=(3,)),
      FSpec("use", ["v", "a"], ["w"], "v[j], a[i] -> w[i, j]")]

def t4(na: int, nb: int, a0: int, a1: int, a2: int, b0: int, b1: int, b2: int) -> bool:
    """
    pre: 1 <= na <= 3 and 1 <= nb <= 3
    post: _
    """
    return check(T4, {"a": [a0, a1, a2][:na], "b": [b0, b1, b2][:nb]})

def t7(na: int, a0: int, a1: int, a2: int) -> bool:
    """
    pre: 1 <= na <= 3
    post: _
    """
    return check(T7, {"a": [a0, a1, a2][:na]})

def t8(na: int, a0: int, a1: int, a2: int, c: int) -> bool:
    """
    pre: 1 <= na <= 3
    post: _
    """
    return check(T8, {"a": [a0, a1, a2][:na], "c": c})

def t6(na: int, a0: int, a1: int, n: int) -> bool:
    """
    pre: 1 <= na <= 2
    post: _
    """
    return check(T6, {"a": [a0, a1][:na], "n": n})

if __name__ == "__main__":
    print(t4(2, 3, 1, 2, 3, 4, 5, 6), t7(2, 1, 2, 3), t8(3, 1, 2, 3, 9), t6(2, 1, 2, 5))

import z3, time
def digits(lo, hi=None):
    d = z3.Range("0", "9")
    if hi is None:
        return z3.Plus(d)
    return z3.Loop(d, lo, hi)
def mk(name, maxlead=3):
    nf = z3.Int(name + "_nf")
    f = [z3.Int(f"{name}_f{i}") for i in range(4)]       # D,H,M,S numeric values (most significant first)
    s = [z3.String(f"{name}_s{i}") for i in range(4)]
    cons = [nf >= 2, nf <= 4]
    # each field string renders its int: two-digit for non-leading, 1..maxlead digits for leading
    t = z3.String(name)
    for i in range(4):
        cons += [f[i] >= 0]
    # string forms: s[i] in digits, str.to_int(s[i]) == f[i]
    for i in range(4):
        cons += [z3.StrToInt(s[i]) == f[i]]
    sep = z3.StringVal(":")
    t4 = z3.Concat(s[0], sep, s[1], sep, s[2], sep, s[3])
    t3 = z3.Concat(s[1], sep, s[2], sep, s[3])
    t2 = z3.Concat(s[2], sep, s[3])
    cons += [t == z3.If(nf == 4, t4, z3.If(nf == 3, t3, t2))]
    two = digits(2, 2); lead = digits(1, maxlead)
    cons += [z3.InRe(s[2], z3.If(nf == 2, lead, two)) if False else z3.BoolVal(True)]
    # leading field is the first present one
    cons += [z3.If(nf == 4, z3.InRe(s[0], lead), s[0] == z3.StringVal("0"))]
    cons += [z3.If(nf == 4, z3.InRe(s[1], two), z3.If(nf == 3, z3.InRe(s[1], lead), s[1] == z3.StringVal("0")))]
    cons += [z3.If(nf >= 3, z3.InRe(s[2], two), z3.InRe(s[2], lead))]
    cons += [z3.InRe(s[3], two)]
    dur = z3.If(nf == 4, f[0] * 86400, 0) + z3.If(nf >= 3, f[1] * 3600, 0) + f[2] * 60 + f[3]
    return t, dur, cons
# repo regex: ^(\d+:)?(\d{2}:)?\d{2}:\d{2}$
d = z3.Range("0", "9")
RX = z3.Concat(z3.Option(z3.Concat(z3.Plus(d), z3.Re(":"))), z3.Option(z3.Concat(z3.Loop(d,2,2), z3.Re(":"))), z3.Loop(d,2,2), z3.Re(":"), z3.Loop(d,2,2))
t1, d1, c1 = mk("t1"); t2, d2, c2 = mk("t2")
s = z3.Solver(); s.set("timeout", 60000)
s.add(c1 + c2 + [z3.InRe(t1, RX), z3.InRe(t2, RX)])
# python max on str: lexicographic
m_is_t1 = t2 <= t1   # max(a,b) returns a unless b > a ; max(max_data, res) -> returns first if equal
dm = z3.If(z3.Not(t1 < t2), d1, d2)
s.push()
s.add(z3.Or(dm < d1, dm < d2))
t0=time.time(); r = s.check(); print("buggy:", r, round(time.time()-t0,2))
if str(r) == "sat":
    m = s.model(); print(m[t1], m[t2])
s.pop()
# fixed: compare by duration
s.push()
dm2 = z3.If(d1 >= d2, d1, d2)
s.add(z3.Or(dm2 < d1, dm2 < d2))
t0=time.time(); r = s.check(); print("fixed:", r, round(time.time()-t0,2))
s.pop()

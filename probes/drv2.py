# like drv but prints path stats using verbose debug capture
import sys, re, io, contextlib
sys.argv.append('--stubfmt')
import crosshair.util as u
u.set_debug(True)
buf = io.StringIO()
with contextlib.redirect_stderr(buf):
    try:
        exec(open('drv.py').read())
    except SystemExit:
        pass
txt = buf.getvalue()
stats = [l for l in txt.splitlines() if 'Path tree stats' in l]
print(stats[-1][:1500] if stats else 'no stats')
its = [l for l in txt.splitlines() if 'Number of iterations' in l]
print(its[-1] if its else '')
import collections
c = collections.Counter()
for l in txt.splitlines():
    if 'Realized at' in l:
        m = re.findall(r'\((\w+ [\w.]+:\d+)\)', l)
        # keep frames in repo
        fr = [x for x in m if not any(s in x for s in ('builtinslib','statespace','core.py','main.py','crosshair','condition_parser'))]
        c[' > '.join(fr[-4:])] += 1
for k, v in c.most_common(15): print(v, k)

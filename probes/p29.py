import sys
sys.modules['zarr'] = None
from pipefunc.cache import HybridCache

def hybrid_evict(c0: int, c1: int, d0: float, d1: float, d2: float) -> bool:
    """
    pre: 1 <= c0 <= 1000 and 1 <= c1 <= 1000
    pre: 0.0 <= d0 <= 1000.0 and 0.0 <= d1 <= 1000.0 and 0.0 <= d2 <= 1000.0
    pre: d0 + d1 > 0.0
    post: _
    """
    c = HybridCache(max_size=2, shared=False)
    c._cache_dict = {0: "v0", 1: "v1"}
    c._access_counts = {0: c0, 1: c1}
    c._computation_durations = {0: d0, 1: d1}
    c.put(2, "new", d2)
    # reference: score_k = 0.5*c_k/(c0+c1) + 0.5*d_k/(d0+d1); evict lower (first on ties)
    # cross-multiplied to avoid division: s0 < s1  <=>  c0*D + d0*C < c1*D + d1*C  with C=c0+c1, D=d0+d1
    C = c0 + c1; D = d0 + d1
    l = c0 * D + d0 * C; r = c1 * D + d1 * C
    evict0 = l <= r
    ok = len(c) == 2 and (2 in c)
    if l == r:
        return ok
    return ok and ((0 in c) == (not evict0)) and ((1 in c) == evict0)

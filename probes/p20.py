import sys, tempfile, shutil, asyncio
sys.modules['zarr'] = None
from typing import Tuple, List, Optional
import p11  # token pickle
import networkx as nx
from pipefunc import Pipeline, pipefunc, PipeFunc, NestedPipeFunc
from pipefunc.lazy import construct_dag
from pipefunc.map.adaptive import create_learners
from pipefunc.map import load_outputs
from crosshair.tracers import NoTracing
import numpy as np
from p19 import build, expect, CALLS
import p13

def lazy_eq(a: int, b: int, x: int) -> bool:
    """
    post: _
    """
    with NoTracing():
        p = build(lazy=True); CALLS.clear()
    with construct_dag() as dag:
        r = p("h", a=a, b=b, x=x)
    n0 = len(CALLS)
    v1 = r.evaluate(); v2 = r.evaluate()
    return n0 == 0 and v1 == expect(a, b, x) and v2 == v1 and sorted(CALLS) == ["f", "g", "g2", "h"] and nx.is_directed_acyclic_graph(dag.graph)

def bmap():
    @pipefunc(output_name="y", mapspec="a[i], b[j] -> y[i, j]")
    def f(a, b):
        return 3 * a + 5 * b + 1
    @pipefunc(output_name="r", mapspec="y[i, :] -> r[i]")
    def g(y):
        tot = 0
        for n, v in enumerate(y):
            tot = tot + (n + 2) * v
        return tot
    return Pipeline([f, g])

def learners_eq(a0: int, a1: int, b0: int, b1: int, split: bool) -> bool:
    """
    post: _
    """
    with NoTracing():
        p = bmap(); p11.TOK.clear()
        d = tempfile.mkdtemp(dir="/dev/shm")
    try:
        a = [a0, a1]; b = [b0, b1]
        ld = create_learners(p, {"a": a, "b": b}, run_folder=d, split_independent_axes=split)
        ld.simple_run()
        y = load_outputs("y", run_folder=d); r = load_outputs("r", run_folder=d)
        ok = True
        for i in range(2):
            tot = 0
            for j in range(2):
                ok = ok and y[i, j] == 3 * a[i] + 5 * b[j] + 1
                tot = tot + (j + 2) * (3 * a[i] + 5 * b[j] + 1)
            ok = ok and r[i] == tot
        return ok
    finally:
        with NoTracing():
            shutil.rmtree(d, ignore_errors=True)

def async_eq(a0: int, a1: int, c0: int, c1: int) -> bool:
    """
    pre: 0 <= c0 <= 3 and 0 <= c1 <= 3
    post: _
    """
    with NoTracing():
        p = bmap()
    a = [a0, a1]; b = [5]
    ex = p13.SymExecutor([c0, c1])
    async def go():
        am = p.map_async({"a": a, "b": b}, storage="dict", executor=ex)
        return await am.task
    res = asyncio.run(go())
    y = res["y"].output
    return y[0, 0] == 3 * a0 + 26 and y[1, 0] == 3 * a1 + 26

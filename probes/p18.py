import sys
sys.modules['zarr'] = None
from typing import Tuple, List, Optional
from pipefunc.resources import Resources

def secs_fields(fields):
    # fields: list of ints, most significant first: [D,]H,M,S or M,S
    mult = [1, 60, 3600, 86400]
    tot = 0
    for n, f in enumerate(reversed(fields)):
        tot += f * mult[n]
    return tot

def _parse(t):
    return secs_fields([int(p) for p in t.split(":")])

def fixed_max(t1, t2):
    return t1 if _parse(t1) >= _parse(t2) else t2

def two(n):  # render 0..99 as two digits
    return ("0" if n < 10 else "") + str(n)

def time_fixed(nf1: int, a1: int, b1: int, c1: int, nf2: int, a2: int, b2: int, c2: int) -> bool:
    """
    pre: 2 <= nf1 <= 3 and 2 <= nf2 <= 3
    pre: 0 <= a1 <= 120 and 0 <= b1 <= 59 and 0 <= c1 <= 59
    pre: 0 <= a2 <= 120 and 0 <= b2 <= 59 and 0 <= c2 <= 59
    post: _
    """
    t1 = (str(a1) + ":" if nf1 == 3 else "") + two(b1) + ":" + two(c1)
    t2 = (str(a2) + ":" if nf2 == 3 else "") + two(b2) + ":" + two(c2)
    if not (Resources._is_valid_wall_time(t1) and Resources._is_valid_wall_time(t2)):
        return False
    r = fixed_max(t1, t2)
    d1 = secs_fields(([a1] if nf1 == 3 else []) + [b1, c1])
    d2 = secs_fields(([a2] if nf2 == 3 else []) + [b2, c2])
    dr = _parse(r)
    return dr >= d1 and dr >= d2

import sys, tempfile, shutil, io
sys.modules['zarr'] = None
from typing import Tuple, List, Optional
from pipefunc import Pipeline, pipefunc, PipeFunc
from pipefunc.map import load_outputs
from crosshair.tracers import NoTracing
import numpy as np
import cloudpickle

TOK = {}
def _dump(obj, f, *a, **k):
    n = len(TOK); TOK[n] = obj
    f.write(b"TOK%08d" % n)
def _load(f, *a, **k):
    b = f.read()
    if len(b) != 11 or not b.startswith(b"TOK"):
        raise EOFError("torn")
    return TOK[int(b[3:])]
def _loads(b, *a, **k):
    if len(b) != 11 or not b.startswith(b"TOK"):
        raise EOFError("torn")
    return TOK[int(b[3:])]
cloudpickle.dump = _dump; cloudpickle.load = _load; cloudpickle.loads = _loads

def build():
    @pipefunc(output_name="y", mapspec="a[i], b[j] -> y[i, j]")
    def f(a, b):
        return 3 * a + 5 * b + 1
    @pipefunc(output_name="r", mapspec="y[i, :] -> r[i]")
    def g(y):
        tot = 0
        for n, v in enumerate(y):
            tot = tot + (n + 2) * v
        return tot
    return Pipeline([f, g])

def map_file(a: List[int], b: List[int]) -> bool:
    """
    pre: 1 <= len(a) <= 2 and 1 <= len(b) <= 2
    post: _
    """
    with NoTracing():
        p = build()
        TOK.clear()
        d = tempfile.mkdtemp(dir="/dev/shm")
    try:
        res = p.map({"a": a, "b": b}, run_folder=d, storage="file_array", parallel=False)
        y = res["y"].output; r = res["r"].output
        y2 = load_outputs("y", run_folder=d)
        ok = y.shape == (len(a), len(b)) and r.shape == (len(a),) and y2.shape == y.shape
        for i in range(len(a)):
            tot = 0
            for j in range(len(b)):
                ok = ok and y[i, j] == 3 * a[i] + 5 * b[j] + 1 and y2[i, j] == y[i, j]
                tot = tot + (j + 2) * (3 * a[i] + 5 * b[j] + 1)
            ok = ok and r[i] == tot
        return ok
    finally:
        with NoTracing():
            shutil.rmtree(d, ignore_errors=True)

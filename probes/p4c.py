import sys
sys.modules['zarr'] = None
from typing import Tuple, List
from pipefunc.cache import LRUCache

class Fixed(LRUCache):
    def put(self, key, value):
        with self._cache_lock:
            if key in self._cache_dict:
                self._cache_queue.remove(key)
            elif len(self._cache_queue) >= self.max_size:
                ev = self._cache_queue.pop(0)
                self._cache_dict.pop(ev)
            self._cache_dict[key] = value
            self._cache_queue.append(key)

CLS = Fixed if 'FIXED' in __import__('os').environ else LRUCache

def lru_step(max_size: int, state: List[Tuple[int, int]], op: int, k: int, v: int) -> bool:
    """
    pre: 1 <= max_size <= 3
    pre: len(state) <= max_size
    pre: all(0 <= kk <= 3 for kk, vv in state)
    pre: len(set(kk for kk, vv in state)) == len(state)
    pre: 0 <= op <= 1 and 0 <= k <= 3
    post: _
    """
    c = CLS(max_size=max_size, shared=False)
    c._cache_dict = {kk: vv for kk, vv in state}
    c._cache_queue = [kk for kk, vv in state]
    model = list(state)
    if op == 0:
        c.put(k, v)
        model = [(kk, vv) for kk, vv in model if kk != k]
        model.append((k, v))
        if len(model) > max_size:
            model.pop(0)
    else:
        got = c.get(k)
        hit = [(kk, vv) for kk, vv in model if kk == k]
        if hit:
            if got != hit[0][1]:
                return False
            model = [(kk, vv) for kk, vv in model if kk != k] + hit
        elif got is not None:
            return False
    return (list(c._cache_queue) == [kk for kk, vv in model]
            and dict(c._cache_dict) == dict(model) and len(c) == len(model))

import sys
sys.modules['zarr'] = None
from typing import Tuple, List, Optional
from pipefunc.resources import Resources

def dur(t: str) -> int:
    parts = [int(p) for p in t.split(":")]
    tot = 0
    for p in parts:
        tot = tot * 60 + p   # not exactly (days*24) but monotone enough for probe
    return tot

def time_max(t1: str, t2: str) -> bool:
    """
    pre: len(t1) <= 8 and len(t2) <= 8
    pre: Resources._is_valid_wall_time(t1) and Resources._is_valid_wall_time(t2)
    post: _
    """
    r = Resources.combine_max([Resources(time=t1), Resources(time=t2)])
    return dur(r.time) >= dur(t1) and dur(r.time) >= dur(t2)

def time_max_ints(h1: int, m1: int, h2: int, m2: int) -> bool:
    """
    pre: 0 <= h1 <= 99 and 0 <= h2 <= 99 and 0 <= m1 <= 59 and 0 <= m2 <= 59
    post: _
    """
    t1 = str(h1) + ":" + ("0" if m1 < 10 else "") + str(m1) + ":00"
    t2 = str(h2) + ":" + ("0" if m2 < 10 else "") + str(m2) + ":00"
    r = Resources.combine_max([Resources(time=t1), Resources(time=t2)])
    return dur(r.time) >= dur(t1) and dur(r.time) >= dur(t2)

def cpus_max(c1: Optional[int], c2: Optional[int], g1: Optional[int], g2: Optional[int]) -> bool:
    """
    pre: (c1 is None or c1 >= 1) and (c2 is None or c2 >= 1) and (g1 is None or g1 >= 0) and (g2 is None or g2 >= 0)
    post: _
    """
    a = Resources(cpus=c1, gpus=g1); b = Resources(cpus=c2, gpus=g2)
    r = Resources.combine_max([a, b])
    ok = True
    for x in (a, b):
        if x.cpus is not None: ok = ok and r.cpus is not None and r.cpus >= x.cpus
        if x.gpus is not None: ok = ok and r.gpus is not None and r.gpus >= x.gpus
    return ok

import sys, tempfile, shutil, os
sys.modules['zarr'] = None
import p11  # installs token pickle
from crosshair.tracers import NoTracing
from pipefunc.map._storage_array._file import FileArray

def fa(n: int, k: int, v: int) -> bool:
    """
    pre: 1 <= n <= 3 and 0 <= k < n
    post: _
    """
    with NoTracing():
        d = tempfile.mkdtemp(dir="/dev/shm")
    try:
        arr = FileArray(d, (n,))
        arr.dump((k,), v)
        ml = arr.mask_linear()
        names = [arr.filename_template.format(i) for i in range(arr.size)]
        with NoTracing():
            print("DBG", type(n), ml, os.listdir(d), [type(x) for x in names], file=sys.stderr)
        return all(m == (i != k) for i, m in enumerate(ml))
    finally:
        with NoTracing():
            shutil.rmtree(d, ignore_errors=True)

import sys
sys.modules['zarr'] = None
from typing import Tuple, List
import pipefunc.map._mapspec as M

def bad_strides(shape):
    strides = []
    for i in range(len(shape)):
        product = 1
        for j in range(i + 1, len(shape)):
            product *= shape[j - 1 if j == 2 else j]   # mutant
        strides.append(product)
    return tuple(strides)
M.shape_to_strides = bad_strides
from pipefunc.map._mapspec import _shape_to_key, shape_to_strides

def key_roundtrip_sym(shape: Tuple[int, ...], idx: int) -> bool:
    """
    pre: len(shape) <= 3
    pre: all(1 <= d for d in shape)
    pre: 0 <= idx
    post: _
    """
    n = 1
    for d in shape:
        n *= d
    if idx >= n:
        return True
    key = _shape_to_key(shape, idx)
    strides = []
    for i in range(len(shape)):
        p = 1
        for j in range(i + 1, len(shape)):
            p *= shape[j]
        strides.append(p)
    return (all(0 <= k < d for k, d in zip(key, shape))
            and sum(k * s for k, s in zip(key, strides)) == idx)

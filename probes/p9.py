import sys
sys.modules['zarr'] = None
from typing import Tuple, List, Optional
from pipefunc.sweep import Sweep

def ref_product(lists):
    out = [[]]
    for l in lists:
        out = [o + [v] for o in out for v in l]
    return out

def sweep_cart(a: List[int], b: List[int], c: List[int]) -> bool:
    """
    pre: len(a) <= 3 and len(b) <= 3 and len(c) <= 2
    post: _
    """
    s = Sweep({"a": a, "b": b, "c": c})
    got = s.list()
    exp = [dict(zip("abc", vals)) for vals in ref_product([a, b, c])]
    return got == exp and len(s) == len(got)

def sweep_zip(a: List[int], b: List[int], c: List[int]) -> bool:
    """
    pre: len(a) <= 3 and len(b) <= 3 and len(c) <= 3
    post: _
    """
    s = Sweep({"a": a, "b": b, "c": c}, dims=[("a", "b"), "c"])
    try:
        got = s.list()
    except ValueError:
        return len(a) != len(b)
    if len(a) != len(b):
        return False
    exp = [{"a": x, "b": y, "c": z} for x, y in zip(a, b) for z in c]
    return got == exp and len(s) == len(got)

def sweep_product_zip(a: List[int], b: List[int], c: List[int]) -> bool:
    """
    pre: 1 <= len(a) <= 2 and 1 <= len(b) <= 2 and len(b) == len(c)
    post: _
    """
    s = Sweep({"a": a}).product(Sweep({"b": b, "c": c}, dims=[("b", "c")]))
    got = s.list()
    exp = [{"a": x, "b": y, "c": z} for x in a for y, z in zip(b, c)]
    return got == exp and len(s) == len(got)

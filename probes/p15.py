import sys
sys.modules['zarr'] = None
from typing import Tuple, List, Optional, Union, Dict, Set
from pipefunc.cache import to_hashable, HybridCache

Leaf = Union[int, str]
V1 = Union[int, str, Tuple[int, ...], List[int], Dict[int, int]]

def key_iff_eq_lists(a: List[int], b: List[int]) -> bool:
    """
    pre: len(a) <= 3 and len(b) <= 3
    post: _
    """
    return (to_hashable(a) == to_hashable(b)) == (a == b)

def key_list_vs_tuple(a: List[int], b: Tuple[int, ...]) -> bool:
    """
    pre: len(a) <= 3 and len(b) <= 3
    post: _
    """
    return to_hashable(a) != to_hashable(b)

def key_dict(a: Dict[int, int], b: Dict[int, int]) -> bool:
    """
    pre: len(a) <= 2 and len(b) <= 2
    post: _
    """
    ka = to_hashable(a); kb = to_hashable(b)
    hash(ka); hash(kb)
    return (ka == kb) == (a == b)

def key_dict_mixed(a: Dict[Union[int, str], int]) -> bool:
    """
    pre: len(a) <= 2
    post: _
    """
    hash(to_hashable(a))
    return True

def nested(a: List[Union[int, List[int], Tuple[int, ...]]], b: List[Union[int, List[int], Tuple[int, ...]]]) -> bool:
    """
    pre: len(a) <= 2 and len(b) <= 2
    post: _
    """
    return (to_hashable(a) == to_hashable(b)) == (a == b)

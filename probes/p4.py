import sys
sys.modules['zarr'] = None
from typing import Tuple, List
from pipefunc.cache import LRUCache, SimpleCache

def lru_history(max_size: int, ops: List[Tuple[int, int, int]]) -> bool:
    """
    pre: 1 <= max_size <= 3
    pre: len(ops) <= 4
    pre: all(0 <= op <= 1 and 0 <= k <= 3 for op, k, v in ops)
    post: _
    """
    c = LRUCache(max_size=max_size, shared=False)
    model = []  # list of (k, v) in recency order, oldest first
    for op, k, v in ops:
        if op == 0:
            c.put(k, v)
            model = [(kk, vv) for kk, vv in model if kk != k]
            model.append((k, v))
            if len(model) > max_size:
                model.pop(0)
        else:
            got = c.get(k)
            hit = [(kk, vv) for kk, vv in model if kk == k]
            if hit:
                if got != hit[0][1]:
                    return False
                model = [(kk, vv) for kk, vv in model if kk != k] + hit
            elif got is not None:
                return False
        if len(c) > max_size:
            return False
        for kk in range(4):
            if (kk in c) != any(k2 == kk for k2, _ in model):
                return False
    return True

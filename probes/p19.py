import sys, tempfile, shutil
sys.modules['zarr'] = None
from typing import Tuple, List, Optional
import p11  # token pickle
from pipefunc import Pipeline, pipefunc, PipeFunc, NestedPipeFunc
from pipefunc.lazy import construct_dag
from crosshair.tracers import NoTracing
import numpy as np

CALLS = []
def build(**kw):
    @pipefunc(output_name="c")
    def f(a, b=7):
        CALLS.append("f")
        return 3 * a + 5 * b + 1
    @pipefunc(output_name="d")
    def g(c, x):
        CALLS.append("g")
        return 2 * c + 11 * x + 2
    @pipefunc(output_name="e")
    def g2(c, x):
        CALLS.append("g2")
        return 13 * c + 17 * x + 3
    @pipefunc(output_name="h")
    def h(d, e, a):
        CALLS.append("h")
        return 19 * d + 23 * e + 29 * a + 4
    return Pipeline([h, g, g2, f], **kw)

def expect(a, b, x):
    c = 3 * a + 5 * b + 1
    d = 2 * c + 11 * x + 2
    e = 13 * c + 17 * x + 3
    return 19 * d + 23 * e + 29 * a + 4

def lazy_eq(a: int, b: int, x: int) -> bool:
    """
    post: _
    """
    with NoTracing():
        p = build(lazy=True); CALLS.clear()
    with construct_dag() as dag:
        r = p("h", a=a, b=b, x=x)
    n0 = len(CALLS)
    v1 = r.evaluate(); v2 = r.evaluate()
    import networkx as nx
    return n0 == 0 and v1 == expect(a, b, x) and v2 == v1 and sorted(CALLS) == ["f", "g", "g2", "h"] and nx.is_directed_acyclic_graph(dag.graph)

def nest_eq(a: int, b: int, x: int) -> bool:
    """
    post: _
    """
    with NoTracing():
        p = build(); CALLS.clear()
        p.nest_funcs({"d", "e"}, new_output_name=("d", "e"))
    return p("h", a=a, b=b, x=x) == expect(a, b, x)

def simpl_eq(a: int, b: int, x: int) -> bool:
    """
    post: _
    """
    with NoTracing():
        p = build(); CALLS.clear()
        q = p.simplified_pipeline("h")
    return q("h", a=a, b=b, x=x) == expect(a, b, x)

def cache_eq(a1: int, a2: int, x: int, sup_c: bool, c: int) -> bool:
    """
    pre: 0 <= a1 <= 1 and 0 <= a2 <= 1 and 0 <= x <= 1 and 0 <= c <= 1
    post: _
    """
    with NoTracing():
        p = build(cache_type="lru", cache_kwargs={"shared": False}); q = build()
        for f in p.functions: f.cache = True
    r1 = p("h", a=a1, x=x); e1 = q("h", a=a1, x=x)
    if sup_c:
        r2 = p("h", a=a2, x=x, c=c); e2 = q("h", a=a2, x=x, c=c)
    else:
        r2 = p("h", a=a2, x=x); e2 = q("h", a=a2, x=x)
    return r1 == e1 and r2 == e2

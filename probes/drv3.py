# probe: twin (negated post), path counting, solver timing, counterexample parsing
import sys, time, importlib, re, json
sys.argv.append('--stubfmt')
_argv = sys.argv[:]
src = open('drv.py').read()
# load shims only (cut off the final analysis part)
exec(src[:src.index("modname, fname, timeout =")])
import z3
_calls = {"n": 0, "t": 0.0}
_orig_check = z3.Solver.check
def _timed_check(self, *a):
    t = time.perf_counter()
    try:
        return _orig_check(self, *a)
    finally:
        _calls["n"] += 1; _calls["t"] += time.perf_counter() - t
z3.Solver.check = _timed_check
_paths = {"n": 0}
_orig_attempt = core.attempt_call
def _attempt(*a, **k):
    _paths["n"] += 1
    return _orig_attempt(*a, **k)
core.attempt_call = _attempt

modname, fname, timeout = _argv[1], _argv[2], float(_argv[3])
mod = importlib.import_module(modname)
fn = getattr(mod, fname)

def run(fn, timeout):
    opts = AnalysisOptionSet(analysis_kind=[AnalysisKind.PEP316], per_condition_timeout=timeout, per_path_timeout=timeout, report_all=True)
    out = []
    for msgs in run_checkables(analyze_function(fn, opts)):
        for m in (msgs if isinstance(msgs, list) else [msgs]):
            out.append(m)
    return out

def make_twin(fn):
    import types, copy
    twin = types.FunctionType(fn.__code__, fn.__globals__, fn.__name__ + "__twin", fn.__defaults__, fn.__closure__)
    twin.__annotations__ = dict(fn.__annotations__)
    twin.__doc__ = re.sub(r"post:\s*_\s*$", "post: not _", fn.__doc__, flags=re.M)
    twin.__module__ = fn.__module__
    return twin

t = time.time()
res = run(fn, timeout)
print("main:", [(m.state.name, m.message[:120]) for m in res], "paths", _paths["n"], "z3 calls", _calls["n"], "z3 s", round(_calls["t"], 2), "wall", round(time.time() - t, 2))
p0 = _paths["n"]
t = time.time()
tw = run(make_twin(fn), 30)
print("twin:", [(m.state.name, m.message[:160]) for m in tw], "paths", _paths["n"] - p0, "wall", round(time.time() - t, 2))
for m in tw:
    mm = re.search(r"when calling (.*?)(?: \(which (?:returns|raises).*)?$", m.message, flags=re.S)
    if mm:
        call = mm.group(1)
        print("parsed call:", call)
        print("replay ->", eval(call, vars(mod)))

import sys, tempfile, shutil
sys.modules['zarr'] = None
from typing import Tuple, List, Optional
from concurrent.futures import Executor, Future
from pipefunc import Pipeline, pipefunc, PipeFunc
from crosshair.tracers import NoTracing
import numpy as np

class SymExecutor(Executor):
    """Runs submitted tasks lazily, in an order chosen by `choices` (symbolic ints)."""
    def __init__(self, choices):
        self.pending = []
        self.choices = list(choices)
        self.log = []
    def submit(self, fn, *args, **kwargs):
        fut = _Fut(self)
        self.pending.append((fut, fn, args, kwargs))
        return fut
    def run_some(self, until):
        while not until.done():
            n = len(self.pending)
            c = self.choices.pop(0) if self.choices else 0
            idx = c % n
            fut, fn, args, kwargs = self.pending.pop(idx)
            try:
                fut.set_result(fn(*args, **kwargs))
            except Exception as e:
                fut.set_exception(e)

class _Fut(Future):
    def __init__(self, ex):
        super().__init__()
        self._ex = ex
    def result(self, timeout=None):
        if not self.done():
            self._ex.run_some(self)
        return super().result(timeout)

CALLS = []
def build():
    @pipefunc(output_name="y", mapspec="a[i] -> y[i]")
    def f(a):
        CALLS.append(("f", a))
        return 3 * a + 1
    @pipefunc(output_name="z", mapspec="a[i] -> z[i]")
    def g(a):
        CALLS.append(("g", a))
        return 5 * a + 2
    @pipefunc(output_name="r")
    def h(y, z):
        CALLS.append(("h",))
        tot = 0
        for n in range(len(y)):
            tot = tot + (n + 2) * y[n] + (n + 7) * z[n]
        return tot
    return Pipeline([f, g, h])

def sched(a: List[int], choices: List[int]) -> bool:
    """
    pre: len(a) == 2
    pre: len(choices) == 4 and all(0 <= c <= 3 for c in choices)
    post: _
    """
    with NoTracing():
        p = build()
        CALLS.clear()
    ex = SymExecutor(choices)
    res = p.map({"a": a}, storage="dict", parallel=True, executor=ex)
    y = res["y"].output; z = res["z"].output; r = res["r"].output
    ok = True
    tot = 0
    for n in range(2):
        ok = ok and y[n] == 3 * a[n] + 1 and z[n] == 5 * a[n] + 2
        tot = tot + (n + 2) * (3 * a[n] + 1) + (n + 7) * (5 * a[n] + 2)
    ok = ok and r == tot and len(CALLS) == 5 and CALLS[-1] == ("h",)
    return ok

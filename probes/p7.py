import sys
sys.modules['zarr'] = None
from typing import Tuple, List, Optional
from pipefunc import Pipeline, pipefunc, PipeFunc
from crosshair.tracers import NoTracing
import numpy as np

def build():
    @pipefunc(output_name="y", mapspec="a[i], b[j] -> y[i, j]")
    def f(a, b):
        return 3 * a + 5 * b + 1
    @pipefunc(output_name="r", mapspec="y[i, :] -> r[i]")
    def g(y):
        tot = 0
        for n, v in enumerate(y):
            tot = tot + (n + 2) * v
        return tot
    return Pipeline([f, g])

def map_eq(a0: int, a1: int, b0: int, b1: int, b2: int) -> bool:
    """
    post: _
    """
    with NoTracing():
        p = build()
    a = [a0, a1]; b = [b0, b1, b2]
    res = p.map({"a": a, "b": b}, storage="dict", parallel=False)
    y = res["y"].output; r = res["r"].output
    ok = y.shape == (2, 3) and r.shape == (2,)
    for i in range(2):
        tot = 0
        for j in range(3):
            ok = ok and y[i, j] == 3 * a[i] + 5 * b[j] + 1
            tot = tot + (j + 2) * (3 * a[i] + 5 * b[j] + 1)
        ok = ok and r[i] == tot
    return ok

def map_eq_symlen(a: List[int], b: List[int]) -> bool:
    """
    pre: 1 <= len(a) <= 3 and 1 <= len(b) <= 3
    post: _
    """
    with NoTracing():
        p = build()
    res = p.map({"a": a, "b": b}, storage="dict", parallel=False)
    y = res["y"].output; r = res["r"].output
    ok = y.shape == (len(a), len(b)) and r.shape == (len(a),)
    for i in range(len(a)):
        tot = 0
        for j in range(len(b)):
            ok = ok and y[i, j] == 3 * a[i] + 5 * b[j] + 1
            tot = tot + (j + 2) * (3 * a[i] + 5 * b[j] + 1)
        ok = ok and r[i] == tot
    return ok

import sys, tempfile, shutil
sys.modules['zarr'] = None
from typing import List
import p11
from p13 import SymExecutor, build, CALLS
from pipefunc.map import load_outputs
from crosshair.tracers import NoTracing

def sched_file(a0: int, a1: int, c0: int, c1: int, c2: int, c3: int, split: bool) -> bool:
    """
    pre: all(0 <= c <= 3 for c in (c0, c1, c2, c3))
    post: _
    """
    with NoTracing():
        p = build(); CALLS.clear(); p11.TOK.clear()
        d = tempfile.mkdtemp(dir="/dev/shm")
    try:
        a = [a0, a1]
        if split:
            ex = {"y": SymExecutor([c0, c1]), "": SymExecutor([c2, c3])}
        else:
            ex = SymExecutor([c0, c1, c2, c3])
        res = p.map({"a": a}, run_folder=d, storage={"y": "file_array", "": "dict"}, parallel=True, executor=ex)
        y = load_outputs("y", run_folder=d); z = load_outputs("z", run_folder=d); r = res["r"].output
        ok = True; tot = 0
        for n in range(2):
            ok = ok and y[n] == 3 * a[n] + 1 and z[n] == 5 * a[n] + 2
            tot = tot + (n + 2) * (3 * a[n] + 1) + (n + 7) * (5 * a[n] + 2)
        return ok and r == tot and len(CALLS) == 5 and CALLS[-1] == ("h",)
    finally:
        with NoTracing():
            shutil.rmtree(d, ignore_errors=True)

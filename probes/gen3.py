"""Probe: generic RUN harness (C02/C11 style): template -> real Pipeline with distinguishing linear
forms + call log; independent reference evaluator and arg-combination closure."""
import sys, itertools
sys.modules['zarr'] = None
from pipefunc import Pipeline, PipeFunc
from pipefunc.exceptions import UnusedParametersError
from crosshair.tracers import NoTracing
import networkx as nx
_g = nx.DiGraph([(1, 2)]); list(nx.topological_generations(_g)); nx.descendants(_g, 1); nx.ancestors(_g, 2); nx.descendants_at_distance(_g, 1, 1)

PRIMES = [3, 5, 7, 11, 13, 17, 19, 23, 29, 31, 37, 41, 43, 47]

class F:
    def __init__(self, name, params, outputs, defaults=None, bound=None):
        self.name, self.params, self.outputs = name, params, outputs
        self.defaults, self.bound = defaults or {}, bound or {}

def form(fi, oi, args):
    tot = 1000 * (fi + 1) + 100 * oi
    for pi, a in enumerate(args):
        tot = tot + PRIMES[(fi * 4 + pi + 2 * oi) % len(PRIMES)] * a
    return tot

def make(template, log, order=None):
    funcs = []
    for fi, fs in enumerate(template):
        def body(*args, _fi=fi, _fs=fs):
            log.append(_fs.name)
            outs = [form(_fi, oi, args) for oi in range(len(_fs.outputs))]
            return tuple(outs) if len(outs) > 1 else outs[0]
        sig = ", ".join(f"{p}={fs.defaults[p]!r}" if p in fs.defaults else p for p in fs.params)
        ns = {"_body": body}
        exec(f"def {fs.name}({sig}):\n    return _body({', '.join(fs.params)})\n", ns)
        on = tuple(fs.outputs) if len(fs.outputs) > 1 else fs.outputs[0]
        funcs.append(PipeFunc(ns[fs.name], on, bound=dict(fs.bound)))
    if order is not None:
        funcs = [funcs[i] for i in order]
    return Pipeline(funcs)

def producers(template):
    return {o: (fi, fs) for fi, fs in enumerate(template) for o in fs.outputs}

def ref_eval(template, out, kw):
    """value of `out` and the list of functions needed, by the rule bound > kwarg > upstream > default"""
    prod = producers(template); memo = dict(kw); used = set(); called = []
    def val(name):
        if name in memo:
            used.add(name); return memo[name]
        fi, fs = prod[name]
        args = []
        for p in fs.params:
            if p in fs.bound: args.append(fs.bound[p])
            elif p in kw: used.add(p); args.append(kw[p])
            elif p in prod: args.append(val(p))
            elif p in fs.defaults: args.append(fs.defaults[p])
            else: raise KeyError(p)
        called.append(fs.name)
        for oi, o in enumerate(fs.outputs): memo[o] = form(fi, oi, args)
        return memo[name]
    fi, fs = prod[out]
    v = val(out)
    return v, called, used

def ref_arg_combinations(template, out):
    prod = producers(template)
    fi, fs = prod[out]
    start = frozenset(p for p in fs.params if p not in fs.bound)
    seen = {start}; work = [start]
    while work:
        cur = work.pop()
        for n in cur:
            if n in prod:
                pf = prod[n][1]
                # replacing the function node replaces all of its outputs that are present
                nxt = frozenset((cur - set(pf.outputs)) | {p for p in pf.params if p not in pf.bound})
                if nxt not in seen:
                    seen.add(nxt); work.append(nxt)
    return {tuple(sorted(s)) for s in seen}

DIAMOND = [F("f", ["a", "b"], ["c"], defaults={"b": 7}),
           F("g", ["c", "x"], ["d", "e"]),
           F("k", ["d", "y"], ["m"], bound={"y": 9}),
           F("h", ["m", "e", "a"], ["z"])]

def run_cut(template, out, cut, vals, surplus):
    log = []
    with NoTracing():
        p = make(template, log)
    kw = {n: v for n, v in zip(cut, vals)}
    exp, called, used = ref_eval(template, out, kw)
    if surplus:
        kw2 = dict(kw); kw2["zzz_unused"] = 1
        try:
            p(out, **kw2)
            return False
        except (UnusedParametersError, ValueError):
            return True
    got = p(out, **kw)
    full = p.run(out, full_output=True, kwargs=kw)
    return got == exp and sorted(log[: len(called)]) == sorted(called) and len(log) == 2 * len(called) and full[out] == exp

def diamond_z_roots(a: int, x: int, b: int, use_b: bool, surplus: bool) -> bool:
    """
    post: _
    """
    cut = ("a", "x") + (("b",) if use_b else ())
    return run_cut(DIAMOND, "z", cut, (a, x, b), surplus)

def diamond_z_cut(a: int, d: int, e: int) -> bool:
    """
    post: _
    """
    return run_cut(DIAMOND, "z", ("a", "d", "e"), (a, d, e), False)

if __name__ == "__main__":
    log = []
    p = make(DIAMOND, log)
    for out in ["c", "d", "m", "z", ("d", "e")]:
        o = out if isinstance(out, str) else out[0]
        print(out, sorted(p.arg_combinations(out)) == sorted(ref_arg_combinations(DIAMOND, o)), sorted(p.arg_combinations(out)))
    print(diamond_z_roots(1, 2, 3, True, False), diamond_z_roots(1, 2, 3, False, True), diamond_z_cut(1, 2, 3))

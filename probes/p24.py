import sys
sys.modules['zarr'] = None
import p21
from p21 import *
import pipefunc._pipefunc as PF
PF.get_local_ip = lambda: "0.0.0.0"
PF.getpass.getuser = lambda: "u"
PF.platform.node = lambda: "n"
import builtins

def fail_at2(a0: int, a1: int, b0: int, b1: int, k: int) -> bool:
    """
    pre: 1 <= k <= 8 and 0 <= a0 <= 1 and 0 <= a1 <= 1 and 0 <= b0 <= 1 and 0 <= b1 <= 1
    post: _
    """
    return p21.fail_at(a0, a1, b0, b1, k)

def fail_at3(a0: int, a1: int, b0: int, b1: int, k: int) -> bool:
    """
    pre: 1 <= k <= 8
    post: _
    """
    with NoTracing():
        p = p21.bmap(); p21.CALLS.clear(); p21.FAIL[0] = None
    p21.FAIL[0] = k
    try:
        p.map({"a": [a0, a1], "b": [b0, b1]}, storage="dict", parallel=False)
        raised = None
    except p21.Boom as e:
        raised = e
    if raised is None:
        return k > len(p21.CALLS) or p21.CALLS[k - 1][0] != "f"
    return (not any(c[0] == "g" for c in p21.CALLS)) and raised.args == ("boom",)

import sys, tempfile, shutil, os
sys.modules['zarr'] = None
from typing import Tuple, List, Optional
import p11  # token pickle
from pipefunc import Pipeline, pipefunc, PipeFunc
from pipefunc.map import load_outputs
from crosshair.tracers import NoTracing
import numpy as np
import networkx as nx
# warm up networkx lazily compiled functions
_g = nx.DiGraph([(1, 2)]); list(nx.topological_generations(_g)); nx.descendants(_g, 1); nx.ancestors(_g, 2); nx.is_directed_acyclic_graph(_g); nx.descendants_at_distance(_g, 1, 1); list(nx.connected_components(_g.to_undirected()))

CALLS = []
FAIL = [None]
class Boom(Exception):
    pass
def bmap():
    @pipefunc(output_name="y", mapspec="a[i], b[j] -> y[i, j]")
    def f(a, b):
        CALLS.append(("f", a, b))
        if FAIL[0] is not None and len(CALLS) == FAIL[0]:
            raise Boom("boom")
        return 3 * a + 5 * b + 1
    @pipefunc(output_name="r", mapspec="y[i, :] -> r[i]")
    def g(y):
        CALLS.append(("g",))
        tot = 0
        for n, v in enumerate(y):
            tot = tot + (n + 2) * v
        return tot
    @pipefunc(output_name="z", mapspec="a[i] -> z[i]")
    def k(a):
        CALLS.append(("k", a))
        return 7 * a + 3
    return Pipeline([f, g, k])

def fixed_parts(a0: int, a1: int, a2: int, b0: int, b1: int, cut: int, first: bool) -> bool:
    """
    pre: 0 <= cut <= 3
    post: _
    """
    with NoTracing():
        p = bmap(); p11.TOK.clear(); CALLS.clear(); FAIL[0] = None
        d = tempfile.mkdtemp(dir="/dev/shm")
    try:
        a = [a0, a1, a2]; b = [b0, b1]
        parts = [slice(0, cut), slice(cut, 3)]
        if not first:
            parts.reverse()
        for n, sl in enumerate(parts):
            p.map({"a": a, "b": b}, run_folder=d, parallel=False, cleanup=(n == 0), fixed_indices={"i": sl})
        n_before = len(CALLS)
        res = p.map({"a": a, "b": b}, run_folder=d, parallel=False, cleanup=False)
        ok = len(CALLS) == n_before
        y = res["y"].output; r = res["r"].output; z = res["z"].output
        for i in range(3):
            tot = 0
            for j in range(2):
                ok = ok and y[i, j] == 3 * a[i] + 5 * b[j] + 1
                tot = tot + (j + 2) * (3 * a[i] + 5 * b[j] + 1)
            ok = ok and r[i] == tot and z[i] == 7 * a[i] + 3
        ok = ok and len([c for c in CALLS if c[0] == "f"]) == 6 and len([c for c in CALLS if c[0] == "k"]) == 3
        return ok
    finally:
        with NoTracing():
            shutil.rmtree(d, ignore_errors=True)

def reject_zip(la: int, lb: int, v: int) -> bool:
    """
    pre: 0 <= la <= 3 and 0 <= lb <= 3
    post: _
    """
    with NoTracing():
        CALLS.clear()
        @pipefunc(output_name="y", mapspec="a[i], b[i] -> y[i]")
        def f(a, b):
            CALLS.append("f")
            return a + b
        p = Pipeline([f])
    a = [v] * la; b = [v + 1] * lb
    try:
        p.map({"a": a, "b": b}, storage="dict", parallel=False)
        raised = False
    except ValueError:
        raised = True
    return raised == (la != lb) and (not raised or CALLS == [])

def fail_at(a0: int, a1: int, b0: int, b1: int, k: int) -> bool:
    """
    pre: 1 <= k <= 8 and 0 <= a0 <= 1 and 0 <= a1 <= 1 and 0 <= b0 <= 1 and 0 <= b1 <= 1
    post: _
    """
    with NoTracing():
        p = bmap(); p11.TOK.clear(); CALLS.clear(); FAIL[0] = None
    FAIL[0] = k
    try:
        p.map({"a": [a0, a1], "b": [b0, b1]}, storage="dict", parallel=False)
        raised = None
    except Boom as e:
        raised = e
    fcalls = [c for c in CALLS if c[0] == "f"]
    # f is generation 1 together with k; g is generation 2
    if raised is None:
        return k > len(CALLS) or CALLS[k - 1][0] != "f"
    notes = getattr(raised, "__notes__", [])
    return (not any(c[0] == "g" for c in CALLS)) and raised.args == ("boom",) and any("f(" in n for n in notes)

def out_names(a0: int, a1: int, b0: int, want_r: bool, want_z: bool) -> bool:
    """
    pre: want_r or want_z
    post: _
    """
    with NoTracing():
        p = bmap(); CALLS.clear(); FAIL[0] = None
    S = set()
    if want_r: S.add("r")
    if want_z: S.add("z")
    res = p.map({"a": [a0, a1], "b": [b0]}, storage="dict", parallel=False, output_names=S)
    ok = True
    if want_r:
        for i, av in enumerate([a0, a1]):
            ok = ok and res["r"].output[i] == 2 * (3 * av + 5 * b0 + 1)
    else:
        ok = ok and not any(c[0] in ("f", "g") for c in CALLS)
    if want_z:
        ok = ok and res["z"].output[1] == 7 * a1 + 3
    else:
        ok = ok and not any(c[0] == "k" for c in CALLS)
    return ok

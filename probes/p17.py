import sys
sys.modules['zarr'] = None
from typing import Tuple, List, Optional
from fractions import Fraction
from pipefunc.resources import Resources
UNITS = ["B", "KB", "MB", "GB", "TB", "PB"]
def size(v, u):
    return v * 1000 ** u

def mem_max(v1: int, u1: int, v2: int, u2: int) -> bool:
    """
    pre: 0 <= v1 <= 2000 and 0 <= v2 <= 2000 and 0 <= u1 <= 5 and 0 <= u2 <= 5
    post: _
    """
    m1 = str(v1) + UNITS[u1]; m2 = str(v2) + UNITS[u2]
    r = Resources.combine_max([Resources(memory=m1), Resources(memory=m2)])
    big = max(size(v1, u1), size(v2, u2))
    if r.memory is None:
        return False
    return (r.memory == m1 and size(v1, u1) == big) or (r.memory == m2 and size(v2, u2) == big)

import sys, os
sys.modules['zarr'] = None
from gen1 import *
import pipefunc.map._run as R

T7p = [FSpec("f", ["a"], ["y"], "a[i] -> y[k, i]", internal=(2,)),
       FSpec("g", ["y"], ["w"], "y[k, i] -> w[i, k]")]

def t7p(na: int, a0: int, a1: int, a2: int) -> bool:
    """
    pre: 1 <= na <= 3
    post: _
    """
    return check(T7p, {"a": [a0, a1, a2][:na]})

if os.environ.get("MUT") == "pair":
    _orig = R._output_from_mapspec_task
    def mut(func, store, args, outputs_list):
        if len(args.missing) == 3:
            outputs_list = list(outputs_list); outputs_list[0], outputs_list[2] = outputs_list[2], outputs_list[0]
        return _orig(func, store, args, outputs_list)
    R._output_from_mapspec_task = mut
if os.environ.get("MUT") == "exist":
    # _func_kwargs: defaults win over inputs (precedence mutant) -- not exercised by T4
    pass

def t4m(na: int, nb: int, a0: int, a1: int, a2: int, b0: int, b1: int, b2: int) -> bool:
    """
    pre: 1 <= na <= 3 and 1 <= nb <= 3
    post: _
    """
    return check(T4, {"a": [a0, a1, a2][:na], "b": [b0, b1, b2][:nb]})

import sys
sys.modules['zarr'] = None
from typing import Tuple, List, Optional
import numpy as np
from pipefunc.map._storage_array._dict import DictArray

def dict_dump_get(s0: int, s1: int, k0: int, k1: int, v: int, q0: int, q1: int) -> bool:
    """
    pre: 1 <= s0 <= 3 and 1 <= s1 <= 3
    pre: -s0 <= k0 < s0 and -s1 <= k1 < s1
    pre: -s0 <= q0 < s0 and -s1 <= q1 < s1
    post: _
    """
    arr = DictArray(None, (s0, s1))
    arr.dump((k0, k1), v)
    got = arr[q0, q1]
    same = (k0 % s0 == q0 % s0) and (k1 % s1 == q1 % s1)
    if same:
        ok = got == v
    else:
        ok = got is np.ma.masked
    lin = (k0 % s0) * s1 + (k1 % s1)
    ml = arr.mask_linear()
    ok = ok and len(ml) == s0 * s1 and all(m == (n != lin) for n, m in enumerate(ml))
    ok = ok and arr.has_index(lin) and arr.get_from_index(lin) == v
    return ok

def dict_slice(s0: int, s1: int, k0: int, k1: int, v: int, q0: int) -> bool:
    """
    pre: 1 <= s0 <= 3 and 1 <= s1 <= 3
    pre: 0 <= k0 < s0 and 0 <= k1 < s1
    pre: 0 <= q0 < s0
    post: _
    """
    arr = DictArray(None, (s0, s1))
    arr.dump((k0, k1), v)
    got = arr[q0, :]
    ok = got.shape == (s1,)
    for j in range(s1):
        if q0 == k0 and j == k1:
            ok = ok and got[j] == v
        else:
            ok = ok and got[j] is np.ma.masked
    full = arr.to_array()
    ok = ok and full.shape == (s0, s1)
    for i in range(s0):
        for j in range(s1):
            if i == k0 and j == k1:
                ok = ok and (not full.mask[i, j]) and full[i, j] == v
            else:
                ok = ok and bool(full.mask[i, j])
    return ok

import sys
sys.modules['zarr'] = None
from typing import List
from pipefunc.cache import to_hashable
from crosshair.tracers import NoTracing

def dbg(a: List[int], b: List[int]) -> bool:
    """
    pre: len(a) == 0 and len(b) == 0
    post: _
    """
    ka = to_hashable(a); kb = to_hashable(b)
    e1 = ka == kb
    e2 = a == b
    with NoTracing():
        print("DBG", type(ka), repr(ka)[:200], type(e1), e1, type(e2), e2, file=sys.stderr)
    return e1 == e2

import sys
sys.modules['zarr'] = None
import tempfile, shutil, traceback, collections
import p14
from p14 import FS, FSREF, Crash, build, CALLS
import cloudpickle, importlib
# use token pickle from p11 (already patched by import of p14->p11)
res = collections.Counter(); detail = {}
for crash_at in range(1, 60):
    p = build(); CALLS.clear(); p14.p11.TOK.clear()
    d = tempfile.mkdtemp(dir="/dev/shm")
    fs = FS(crash_at); FSREF[0] = fs
    crashed = False
    try:
        p.map({"a": [1, 2]}, run_folder=d, storage="file_array", parallel=False)
    except Crash as e:
        crashed = True
    FSREF[0] = None
    if not crashed:
        print("no crash beyond op", crash_at - 1); shutil.rmtree(d); break
    n1 = len(CALLS)
    try:
        r = p.map({"a": [1, 2]}, run_folder=d, storage="file_array", parallel=False, cleanup=False)
        ok = list(r["y"].output) == [4, 7] and r["r"].output == 2 * 4 + 3 * 7
        res["ok" if ok else "WRONG"] += 1
        detail[crash_at] = ("ok" if ok else "WRONG", fs.trace[-1], f"calls first={n1} total={len(CALLS)}")
    except Exception as e:
        res[type(e).__name__] += 1
        detail[crash_at] = (type(e).__name__ + ": " + str(e)[:70], fs.trace[-1])
    shutil.rmtree(d, ignore_errors=True)
for k, v in detail.items(): print(k, v)
print(res)

import sys, tempfile, shutil
sys.modules['zarr'] = None
from typing import Tuple, List, Optional
import p11
from pipefunc import Pipeline, pipefunc, PipeFunc
from pipefunc.map import load_outputs, RunInfo
from crosshair.tracers import NoTracing
import numpy as np
import networkx as nx
_g = nx.DiGraph([(1, 2)]); list(nx.topological_generations(_g)); nx.descendants(_g, 1); nx.ancestors(_g, 2); nx.is_directed_acyclic_graph(_g); nx.descendants_at_distance(_g, 1, 1); list(nx.connected_components(_g.to_undirected()))
from p19 import build, expect, CALLS

def cache_hist(a1: int, a2: int, b: int, x: int, c: int, sup1: bool, sup2: bool) -> bool:
    """
    pre: 0 <= a1 <= 1 and 0 <= a2 <= 1 and 0 <= x <= 1 and 0 <= c <= 1 and 0 <= b <= 1
    post: _
    """
    with NoTracing():
        p = build(cache_type="lru", cache_kwargs={"shared": False}); q = build()
        for f in p.functions: f.cache = True
    kw1 = {"a": a1, "b": b, "x": x}; kw2 = {"a": a2, "b": b, "x": x}
    if sup1: kw1["c"] = c
    if sup2: kw2["c"] = c
    ok = True
    for kw in (kw1, kw2):
        try:
            e = q("h", **kw)
        except Exception:
            continue
        ok = ok and p("h", **kw) == e
    return ok

def nullary_sub(v: int) -> bool:
    """
    post: _
    """
    with NoTracing():
        @pipefunc(output_name="k")
        def const():
            return 41
        @pipefunc(output_name="y", mapspec="a[i] -> y[i]")
        def f(a, k):
            return 3 * a + 5 * k + 1
        @pipefunc(output_name="z", mapspec="a[i] -> z[i]")
        def g(a):
            return 7 * a
        p = Pipeline([const, f, g])
    res = p.map({"a": [v, v + 1]}, storage="dict", parallel=False, output_names={"y"})
    return res["y"].output[1] == 3 * (v + 1) + 5 * 41 + 1

def add_axis(n: int, x0: int, x1: int, x2: int, b: int) -> bool:
    """
    pre: 1 <= n <= 3
    post: _
    """
    with NoTracing():
        p = build(); CALLS.clear()
        p.add_mapspec_axis("x", axis="k")
    xs = [x0, x1, x2][:n]
    res = p.map({"a": 5, "b": b, "x": xs}, storage="dict", parallel=False)
    ok = res["h"].output.shape == (n,)
    for m in range(n):
        ok = ok and res["h"].output[m] == expect(5, b, xs[m])
    return ok and res["c"].output == 3 * 5 + 5 * b + 1

def runinfo_rt(n: int, v: int) -> bool:
    """
    pre: 1 <= n <= 3
    post: _
    """
    with NoTracing():
        from p7 import build as bm
        p = bm(); p11.TOK.clear()
        d = tempfile.mkdtemp(dir="/dev/shm")
    try:
        a = [v, v + 1, v + 2][:n]; b = [v + 5, v + 6]
        p.map({"a": a, "b": b}, run_folder=d, storage={"": "file_array", "r": "dict"}, parallel=False)
        ri = RunInfo.load(d)
        ok = ri.shapes["y"] == (n, 2) and ri.shape_masks["r"] == (True,) and ri.storage == {"": "file_array", "r": "dict"}
        ok = ok and ri.inputs["a"] == a and ri.mapspecs_as_strings == p.mapspecs_as_strings
        r = load_outputs("r", run_folder=d)
        return ok and r.shape == (n,)
    finally:
        with NoTracing():
            shutil.rmtree(d, ignore_errors=True)

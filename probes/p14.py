import sys, tempfile, shutil, pathlib, builtins, os
sys.modules['zarr'] = None
from typing import Tuple, List, Optional
import p11  # token pickle
from pipefunc import Pipeline, pipefunc, PipeFunc
from pipefunc.map import load_outputs
from crosshair.tracers import NoTracing
import numpy as np

class Crash(BaseException):
    pass

class FS:
    def __init__(self, crash_at):
        self.n = 0
        self.crash_at = crash_at
        self.dead = False
        self.trace = []
    def tick(self, what):
        if self.dead:
            return
        self.n += 1
        self.trace.append(what)
        if self.n == self.crash_at:
            self.dead = True
            raise Crash(what)

class WFile:
    """buffered file: python-level writes accumulate; one FS event per flush at close (torn = half)"""
    def __init__(self, fs, f, name):
        self.fs, self.f, self.name = fs, f, name
        self.buf = None
    def write(self, b):
        self.buf = b if self.buf is None else self.buf + b
        return len(b)
    def _flush(self):
        if self.buf is None:
            return
        b, self.buf = self.buf, None
        try:
            self.fs.tick(("flush", self.name))
        except Crash:
            self.f.write(b[: len(b) // 2]); self.f.flush()
            raise
        self.f.write(b)
    def close(self):
        try:
            self._flush()
        finally:
            self.f.close()
    def __enter__(self): return self
    def __exit__(self, *a):
        if self.fs.dead:
            self.f.close()
            return False
        self.close()
        return False
    def __getattr__(self, k): return getattr(self.f, k)

FSREF = [None]
_orig_open = pathlib.Path.open
_orig_mkdir = pathlib.Path.mkdir
def _open(self, mode="r", *a, **k):
    fs = FSREF[0]
    if fs is None or "w" not in mode:
        return _orig_open(self, mode, *a, **k)
    fs.tick(("open", self.name))
    return WFile(fs, _orig_open(self, mode, *a, **k), self.name)
def _mkdir(self, *a, **k):
    fs = FSREF[0]
    if fs is not None:
        fs.tick(("mkdir", self.name))
    return _orig_mkdir(self, *a, **k)
pathlib.Path.open = _open
pathlib.Path.mkdir = _mkdir

CALLS = []
def build():
    @pipefunc(output_name="y", mapspec="a[i] -> y[i]")
    def f(a):
        CALLS.append(("f", a))
        return 3 * a + 1
    @pipefunc(output_name="r")
    def h(y):
        CALLS.append(("h",))
        tot = 0
        for n in range(len(y)):
            tot = tot + (n + 2) * y[n]
        return tot
    return Pipeline([f, h])

def crash_resume(a: List[int], crash_at: int) -> bool:
    """
    pre: len(a) == 2
    pre: 1 <= crash_at <= 40
    post: _
    """
    with NoTracing():
        p = build()
        CALLS.clear(); p11.TOK.clear()
        d = tempfile.mkdtemp(dir="/dev/shm")
    try:
        fs = FS(crash_at)
        FSREF[0] = fs
        crashed = False
        try:
            p.map({"a": a}, run_folder=d, storage="file_array", parallel=False)
        except Crash:
            crashed = True
        FSREF[0] = None
        n_first = len(CALLS)
        res = p.map({"a": a}, run_folder=d, storage="file_array", parallel=False, cleanup=False)
        y = res["y"].output; r = res["r"].output
        ok = True
        tot = 0
        for n in range(2):
            ok = ok and y[n] == 3 * a[n] + 1
            tot = tot + (n + 2) * (3 * a[n] + 1)
        return ok and r == tot
    finally:
        FSREF[0] = None
        with NoTracing():
            shutil.rmtree(d, ignore_errors=True)

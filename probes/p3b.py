import sys
sys.modules['zarr'] = None
from typing import Tuple, List, Union, Optional
from pipefunc.map._storage_array._base import normalize_key, select_by_mask

def ref_normalize(key, full_shape):
    out = []
    for k, n in zip(key, full_shape):
        if not (-n <= k < n):
            raise IndexError
        out.append(k if k >= 0 else k + n)
    return tuple(out)

MASK = (True, False, True)

def nk_getitem(k0: int, k1: int, k2: int, s0: int, s1: int, i0: int) -> bool:
    """
    pre: s0 >= 1 and s1 >= 1 and i0 >= 1
    post: _
    """
    key = (k0, k1, k2); shape = (s0, s1); internal = (i0,)
    full = select_by_mask(MASK, shape, internal)
    try:
        got = normalize_key(key, shape, internal, MASK)
    except IndexError:
        got = "IndexError"
    try:
        exp = ref_normalize(key, full)
    except IndexError:
        exp = "IndexError"
    return got == exp

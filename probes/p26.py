import sys
sys.modules['zarr'] = None
from typing import Tuple, List, Optional
from pipefunc import Pipeline, pipefunc, PipeFunc
from crosshair.tracers import NoTracing
import numpy as np
import xarray as xr
from pipefunc.map.xarray import xarray_dataset_from_results
from p7 import build

def xr_eq(a0: int, a1: int, b0: int, b1: int, b2: int) -> bool:
    """
    pre: 0 <= a0 < a1 <= 3 and 0 <= b0 < b1 < b2 <= 4
    post: _
    """
    with NoTracing():
        p = build()
    a = [a0, a1]; b = [b0, b1, b2]
    res = p.map({"a": a, "b": b}, storage="dict", parallel=False)
    ds = xarray_dataset_from_results({"a": a, "b": b}, res, p)
    ok = ds["y"].dims == ("i", "j") and ds["r"].dims == ("i",)
    v = ds["y"].sel(a=a1, b=b0).item()
    return ok and v == 3 * a1 + 5 * b0 + 1

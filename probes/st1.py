"""Probe: storage op-sequence harness vs pure-Python masked array reference."""
import sys, itertools, tempfile, shutil
sys.modules['zarr'] = None
import numpy as np
import p11  # token pickle
from crosshair.tracers import NoTracing
from pipefunc.map._storage_array._dict import DictArray
from pipefunc.map._storage_array._file import FileArray

MASKED = "<masked>"
class Ref:
    """reference: dict ext_index -> value (nested list of internal shape or scalar)"""
    def __init__(self, shape, internal, mask):
        self.shape, self.internal, self.mask = shape, internal, mask
        self.data = {}
        self.full = []
        e = i = 0
        for m in mask:
            if m: self.full.append(shape[e]); e += 1
            else: self.full.append(internal[i]); i += 1
    def norm(self, key, sizes):
        if len(key) != len(sizes): raise IndexError
        out = []
        for k, n in zip(key, sizes):
            if isinstance(k, slice): out.append(list(range(*k.indices(n))))
            else:
                if not (-n <= k < n): raise IndexError
                out.append([k % n])
        return out
    def dump(self, key, value):
        for idx in itertools.product(*self.norm(key, self.shape)):
            self.data[idx] = value
    def elem(self, full_idx):
        ext = tuple(i for i, m in zip(full_idx, self.mask) if m)
        inn = tuple(i for i, m in zip(full_idx, self.mask) if not m)
        if ext not in self.data: return MASKED
        v = self.data[ext]
        for i in inn: v = v[i]
        return v
    def getitem(self, key):
        ranges = self.norm(key, self.full)
        scalar = not any(isinstance(k, slice) for k in key)
        vals = [self.elem(idx) for idx in itertools.product(*ranges)]
        if scalar: return vals[0]
        shape = tuple(len(r) for r, k in zip(ranges, key) if isinstance(k, slice))
        return shape, vals

def same(got, exp):
    if exp == MASKED or (isinstance(exp, str) and exp == MASKED):
        return got is np.ma.masked
    return (got is not np.ma.masked) and got == exp

def run(cls, shape, internal, mask, k0, k1, v0, v1, key, use_slice):
    with NoTracing():
        p11.TOK.clear()
        d = tempfile.mkdtemp(dir="/dev/shm") if cls is FileArray else None
    try:
        arr = cls(d, shape, internal, mask)
        ref = Ref(shape, internal, mask)
        def val(v):
            if not internal: return v
            return [v + 10 * j for j in range(internal[0])] if len(internal) == 1 else [[v + 10 * j + 100 * l for l in range(internal[1])] for j in range(internal[0])]
        for k, v in ((k0, v0), (k1, v1)):
            try:
                ref.dump(k, val(v)); ok_ref = True
            except IndexError:
                ok_ref = False
            try:
                arr.dump(k, val(v)); ok_arr = True
            except IndexError:
                ok_arr = False
            if ok_ref != ok_arr: return False
        try:
            exp = ref.getitem(key); ref_ok = True
        except IndexError:
            ref_ok = False
        try:
            got = arr[key]; arr_ok = True
        except IndexError:
            arr_ok = False
        if ref_ok != arr_ok: return False
        if not ref_ok: return True
        if isinstance(exp, tuple):
            shp, vals = exp
            if tuple(got.shape) != shp: return False
            flat = [got[idx] for idx in itertools.product(*[range(n) for n in shp])]
            return all(same(g, e) for g, e in zip(flat, vals))
        return same(got, exp)
    finally:
        if d:
            with NoTracing(): shutil.rmtree(d, ignore_errors=True)

# geometry: shape (2,3) external, internal (2,), mask (T, T, F)
def dict_g1(a0: int, a1: int, b0: int, b1: int, v0: int, v1: int, q0: int, q1: int, q2: int, sl: int) -> bool:
    """
    pre: -3 <= a0 <= 2 and -4 <= a1 <= 3 and -3 <= b0 <= 2 and -4 <= b1 <= 3
    pre: -3 <= q0 <= 2 and -4 <= q1 <= 3 and -3 <= q2 <= 2 and 0 <= sl <= 3
    post: _
    """
    key = [q0, q1, q2]
    if sl: key[sl - 1] = slice(None)
    return run(DictArray, (2, 3), (2,), (True, True, False), (a0, a1), (b0, b1), v0, v1, tuple(key), sl)

def file_g1(a0: int, a1: int, b0: int, b1: int, v0: int, v1: int, q0: int, q1: int, q2: int, sl: int) -> bool:
    """
    pre: -3 <= a0 <= 2 and -4 <= a1 <= 3 and -3 <= b0 <= 2 and -4 <= b1 <= 3
    pre: -3 <= q0 <= 2 and -4 <= q1 <= 3 and -3 <= q2 <= 2 and 0 <= sl <= 3
    post: _
    """
    key = [q0, q1, q2]
    if sl: key[sl - 1] = slice(None)
    return run(FileArray, (2, 3), (2,), (True, True, False), (a0, a1), (b0, b1), v0, v1, tuple(key), sl)

if __name__ == "__main__":
    print(dict_g1(0, 1, -1, 2, 5, 6, 0, 1, 1, 0), dict_g1(0, 1, -1, 2, 5, 6, 0, 1, 1, 2), file_g1(0, 1, -1, 2, 5, 6, 0, 1, 1, 3), dict_g1(5, 1, -1, 2, 5, 6, 0, 9, 1, 0))

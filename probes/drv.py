import sys, time, importlib
sys.modules['zarr'] = None
from crosshair.core_and_libs import analyze_function, run_checkables, AnalysisKind, MessageType
from crosshair.options import AnalysisOptionSet
from crosshair.core import _PATCH_REGISTRATIONS, CrossHairValue, NoTracing
import crosshair.core as core

_orig_format = _PATCH_REGISTRATIONS[format]
import ast, pathlib
_MSG_RANGES = {}
def _collect_msg_ranges(root="/repo/pipefunc"):
    for p in pathlib.Path(root).rglob("*.py"):
        try:
            tree = ast.parse(p.read_text())
        except SyntaxError:
            continue
        ranges = []
        for node in ast.walk(tree):
            body_lists = [getattr(node, a) for a in ("body", "orelse", "finalbody") if isinstance(getattr(node, a, None), list)]
            for body in body_lists:
                for i, st in enumerate(body):
                    if isinstance(st, ast.Expr) and isinstance(st.value, ast.Call) and (
                        (isinstance(st.value.func, ast.Name) and st.value.func.id == "print")
                        or (isinstance(st.value.func, ast.Attribute) and st.value.func.attr == "warn")):
                        ranges.append((st.lineno, st.end_lineno))
                    if isinstance(st, ast.Raise):
                        ranges.append((st.lineno, st.end_lineno))
                        # preceding `msg = ...` assignments feeding this raise
                        j = i - 1
                        while j >= 0 and isinstance(body[j], (ast.Assign, ast.AugAssign)) and any(
                            isinstance(t, ast.Name) and t.id in ("msg", "error_message") for t in (body[j].targets if isinstance(body[j], ast.Assign) else [body[j].target])):
                            ranges.append((body[j].lineno, body[j].end_lineno))
                            j -= 1
        _MSG_RANGES[str(p)] = ranges
_collect_msg_ranges()
def _in_msg_context():
    f = sys._getframe(2)
    while f is not None:
        fn = f.f_code.co_filename
        if fn in _MSG_RANGES:
            ln = f.f_lineno
            return any(a <= ln <= b for a, b in _MSG_RANGES[fn])
        f = f.f_back
    return False
def _fmt_stub(obj, format_spec=""):
    with NoTracing():
        from crosshair.libimpl.builtinslib import AnySymbolicStr
        sym = isinstance(obj, CrossHairValue) and not isinstance(obj, AnySymbolicStr)
        use = sym and _in_msg_context()
    if use:
        return "<sym>"
    return _orig_format(obj, format_spec)
_orig_repr = _PATCH_REGISTRATIONS[repr]
def _repr_stub(obj):
    with NoTracing():
        use = _in_msg_context()
    if use:
        return "<repr>"
    return _orig_repr(obj)
if '--stubfmt' in sys.argv:
    _PATCH_REGISTRATIONS[format] = _fmt_stub
    _PATCH_REGISTRATIONS[repr] = _repr_stub

import functools
def _partial_fixed(_f, /, *a1, **kw1):
    if not callable(_f):
        raise TypeError
    def wrapper(*a2, **kw2):
        return _f(*a2, **kw2)
    functools.update_wrapper(wrapper, _f)
    return functools.partial(wrapper, *a1, **kw1)
_PATCH_REGISTRATIONS[functools.partial] = _partial_fixed
import crosshair.fnutil as _fnutil, inspect as _inspect
_orig_gcv = _fnutil.getclosurevars
def _safe_gcv(fn):
    try:
        return _orig_gcv(fn)
    except ValueError:
        return _inspect.ClosureVars({}, getattr(fn, "__globals__", {}), {}, set())
_fnutil.getclosurevars = _safe_gcv
if '--symtime' not in sys.argv:
    import time as _t
    from crosshair.register_contract import REGISTERED_CONTRACTS
    for _fn in (_t.time, _t.time_ns, _t.monotonic, _t.monotonic_ns, _t.process_time, _t.process_time_ns, _t.perf_counter if hasattr(_t,'perf_counter') else None):
        REGISTERED_CONTRACTS.pop(_fn, None)
    _PATCH_REGISTRATIONS.pop(_t.sleep, None)
_orig_csc = core.consider_shortcircuit
def _csc(fn, sig, bound, subconditions, allow_interpretation):
    if allow_interpretation:
        return None          # never skip real code
    return _orig_csc(fn, sig, bound, subconditions, allow_interpretation)  # registered environment contracts
core.consider_shortcircuit = _csc
import json as _json
from crosshair.core import deep_realize as _deep_realize
_orig_json_dump = _json.dump
def _json_dump_realizing(obj, fp, *a, **kw):
    return _orig_json_dump(_deep_realize(obj), fp, *a, **kw)
_PATCH_REGISTRATIONS[_json.dump] = _json_dump_realizing
import numpy as _np
def _realizing(fn):
    def wrapper(*a, **kw):
        return fn(*_deep_realize(a), **_deep_realize(kw))
    return wrapper
for _n in ("unravel_index", "ravel_multi_index"):
    setattr(_np, _n, _realizing(getattr(_np, _n)))
if '--hashstub' in sys.argv:
    _orig_hash = _PATCH_REGISTRATIONS[hash]
    def _hash_stub(obj):
        with NoTracing():
            from crosshair.libimpl.builtinslib import SymbolicInt, SymbolicBool, AnySymbolicStr
            leaf = isinstance(obj, (SymbolicInt, SymbolicBool, AnySymbolicStr))
            is_tuple = type(obj) is tuple
        if leaf:
            return 0
        if is_tuple:
            for x in obj:
                _hash_stub(x)
            return 0
        return _orig_hash(obj)
    _PATCH_REGISTRATIONS[hash] = _hash_stub
import operator as _operator
_orig_range = _PATCH_REGISTRATIONS[range]
def _range_fixed(*a):
    with NoTracing():
        conv = tuple(_operator.index(x) if (not isinstance(x, (int, CrossHairValue)) and hasattr(x, "__index__")) else x for x in a)
    return _orig_range(*conv)
_PATCH_REGISTRATIONS[range] = _range_fixed
_orig_add_note = BaseException.add_note
def _add_note_realizing(self, note):
    return _orig_add_note(self, _deep_realize(note))
_PATCH_REGISTRATIONS[BaseException.add_note] = _add_note_realizing
import pickle as _pickle
_orig_pdumps = _pickle.dumps
def _pdumps_realizing(obj, *a, **kw):
    return _orig_pdumps(_deep_realize(obj), *a, **kw)
_PATCH_REGISTRATIONS[_pickle.dumps] = _pdumps_realizing
modname, fname, timeout = sys.argv[1], sys.argv[2], float(sys.argv[3])
mod = importlib.import_module(modname)
fn = getattr(mod, fname)
opts = AnalysisOptionSet(analysis_kind=[AnalysisKind.PEP316], per_condition_timeout=timeout, per_path_timeout=timeout, report_all=True, report_verbose=False)
t=time.time()
checkables = analyze_function(fn, opts)
for msgs in run_checkables(checkables):
    for m in (msgs if isinstance(msgs, list) else [msgs]):
        print(m.state, m.message[:300]); print(getattr(m, "traceback", "")[-3000:])
print("wall", round(time.time()-t,2))

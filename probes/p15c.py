from typing import List
def eq_empty(a: List[int], b: List[int]) -> bool:
    """
    pre: len(a) == 0 and len(b) == 0
    post: _
    """
    return a == b
def eq_self(a: List[int]) -> bool:
    """
    pre: len(a) <= 2
    post: _
    """
    return a == list(a)

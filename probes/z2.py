import z3, time
UNITS = {"B": 1e-9, "KB": 1e-6, "MB": 1e-3, "GB": 1, "TB": 1e3, "PB": 1e6}
d = z3.Range("0", "9")
def mk(name):
    ip = z3.String(name + "_ip"); fp = z3.String(name + "_fp"); hasf = z3.Bool(name + "_hasf"); u = z3.String(name + "_u")
    s = z3.String(name)
    cons = [z3.InRe(ip, z3.Loop(d, 1, 4)), z3.InRe(fp, z3.Loop(d, 1, 2)),
            z3.Or([u == z3.StringVal(k) for k in UNITS])]
    cons.append(s == z3.If(hasf, z3.Concat(ip, z3.StringVal("."), fp, u), z3.Concat(ip, u)))
    val = z3.ToReal(z3.StrToInt(ip)) + z3.If(hasf, z3.If(z3.Length(fp) == 1, z3.ToReal(z3.StrToInt(fp)) / 10, z3.ToReal(z3.StrToInt(fp)) / 100), 0)
    mult = z3.RealVal(0)
    for k, v in UNITS.items():
        mult = z3.If(u == z3.StringVal(k), z3.RealVal(repr(v)) if False else z3.Q(int(round(v * 1e9)), 10**9), mult)
    return s, val * mult, cons
# repo regex ^(\d+(?:\.\d+)?)([KMGTP]?B)$
RX = z3.Concat(z3.Plus(d), z3.Option(z3.Concat(z3.Re("."), z3.Plus(d))), z3.Option(z3.Union(*[z3.Re(c) for c in "KMGTP"])), z3.Re("B"))
m1, g1, c1 = mk("m1"); m2, g2, c2 = mk("m2")
s = z3.Solver(); s.set("timeout", 120000)
s.add(c1 + c2 + [z3.InRe(m1, RX), z3.InRe(m2, RX)])
# combine_max: start None/0; step1: if g1 > 0: max=m1 ; step2: cur=g2; maxgb = g(max) if max not None else 0; if g2 > maxgb: max = m2
set1 = g1 > 0
maxgb1 = z3.If(set1, g1, 0)
set2 = g2 > maxgb1
res_is_none = z3.And(z3.Not(set1), z3.Not(set2))
res_g = z3.If(set2, g2, z3.If(set1, g1, 0))
s.push(); s.add(res_is_none)
t=time.time(); r=s.check(); print("memory dropped:", r, round(time.time()-t,2)); 
if str(r)=="sat": print(s.model()[m1], s.model()[m2])
s.pop()
s.push(); s.add(z3.Not(res_is_none), z3.Or(res_g < g1, res_g < g2))
t=time.time(); r=s.check(); print("not max:", r, round(time.time()-t,2)); s.pop()

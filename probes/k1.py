import sys, time, inspect
sys.modules['zarr'] = None
import z3
from pyz3 import Engine, DIGIT
import pipefunc.resources as RES
from pipefunc.resources import Resources

def structured_time(eng, name, nf, lead_digits=3):
    fs = [z3.String(f"{name}_f{i}") for i in range(nf)]
    parts = []
    cons = []
    for i, f in enumerate(fs):
        if i: parts.append(z3.StringVal(":"))
        parts.append(f)
        if i == 0:
            eng.declare_piece(f, z3.Loop(DIGIT, 1 if nf > 2 else 2, lead_digits if nf > 2 else 2))
            cons += [z3.Length(f) >= 1, z3.Length(f) <= lead_digits]
        else:
            eng.declare_piece(f, z3.Loop(DIGIT, 2, 2))
            cons += [z3.Length(f) == 2]
        cons += [z3.StrToInt(f) >= 0]
    mult = [1, 60, 3600, 86400]
    dur = sum(z3.StrToInt(f) * mult[n] for n, f in enumerate(reversed(fs)))
    return z3.Concat(*parts), dur, cons

T0 = time.time(); tot_q = 0; tot_s = 0.0; viol = 0; funcs = set()
for nf1 in (2, 3, 4):
    for nf2 in (2, 3, 4):
        eng = Engine(vars(RES))
        t1, d1, c1 = structured_time(eng, "t1", nf1); t2, d2, c2 = structured_time(eng, "t2", nf2)
        eng.base += c1 + c2
        def thunk():
            r1 = eng.construct(Resources, {"time": t1})
            r2 = eng.construct(Resources, {"time": t2})
            return eng.apply(inspect.getattr_static(Resources, "combine_max"), [[r1, r2]], {})
        paths = eng.explore(thunk)
        for pc, (kind, v) in paths:
            eng.pc = pc
            if kind == "raise":
                sat, m = eng.check()
                if sat: print("  valid time rejected", m.eval(t1), m.eval(t2)); viol += 1
                continue
            out = v.fields["time"]
            if out is None:
                sat, m = eng.check()
                if sat: print("  time dropped"); viol += 1
                continue
            dout = z3.If(out == t1, d1, d2)
            prop = z3.And(z3.Or(out == t1, out == t2), dout >= d1, dout >= d2)
            sat, m = eng.check(z3.Not(prop))
            if sat:
                print(f"  nf=({nf1},{nf2}) not max duration:", m.eval(t1), m.eval(t2), "->", m.eval(out)); viol += 1
        print(f"nf=({nf1},{nf2}) paths={len(paths)} queries={eng.queries} solver_s={eng.solver_s:.2f}")
        tot_q += eng.queries; tot_s += eng.solver_s; funcs |= eng.functions
print("functions encoded:", sorted(funcs))
print("queries", tot_q, "solver_s", round(tot_s, 2), "wall", round(time.time() - T0, 2), "violating paths", viol)

#!/bin/sh
# Builds /verif/.venv: a venv of /venv/bin/python that sees /venv's site-packages (the
# repository's environment, incl. the editable install of /repo) plus crosshair-tool and
# z3-solver from the offline wheelhouse.  Idempotent; no network.
set -e
cd "$(dirname "$0")"
if [ -x .venv/bin/python ] && .venv/bin/python -c "import crosshair, z3" 2>/dev/null; then
  exit 0
fi
rm -rf .venv
/venv/bin/python -m venv .venv
SP=$(.venv/bin/python -c "import sysconfig; print(sysconfig.get_paths()['purelib'])")
printf "import site; site.addsitedir('/venv/lib/python3.12/site-packages')\n" > "$SP/verif_overlay.pth"
PIP_NO_INDEX=1 .venv/bin/pip install -q --no-index --find-links /opt/veriftools/wheels crosshair-tool z3-solver
.venv/bin/python -c "import crosshair, z3; print('crosshair', crosshair.__version__, 'z3', z3.get_version_string())"

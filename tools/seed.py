#!/usr/bin/env python3
"""Seeded-change bookkeeping.

  seed.py verify <src_dir> <prop> <name>   confirm in a scratch worktree that the change (i) applies, (ii) keeps the
                                           pinned baseline green, (iii) makes demo.py fail and (iv) demo.py passes
                                           without it; then store it as /verif/seeded/<prop>_<name>/
  seed.py run <prop>_<name> [tier]         apply the patch to /repo, run ./check <prop>, record the outcome, undo
  seed.py runall [tier]                    the same for every stored seed that has no recorded outcome for the tier
"""
import json
import os
import shutil
import subprocess
import sys
import time

VERIF = os.path.dirname(os.path.dirname(os.path.abspath(__file__)))
SEEDED = os.path.join(VERIF, "seeded")
WT = "/tmp/wt_seedverify"


def sh(cmd, **kw):
    return subprocess.run(cmd, shell=True, text=True, capture_output=True, **kw)


def verify(src, prop, name):
    patch = os.path.join(src, "patch.diff")
    demo = os.path.join(src, "demo.py")
    sh(f"git -C /repo worktree remove --force {WT}")
    r = sh(f"git -C /repo worktree add -q --detach {WT} HEAD")
    assert r.returncode == 0, r.stderr
    try:
        ran = {}
        r = sh(f"cd {WT} && /venv/bin/python {demo}")
        ran["demo_clean_rc"] = r.returncode
        r = sh(f"git -C {WT} apply {patch}")
        ran["apply_rc"] = r.returncode
        if r.returncode != 0:
            print("patch does not apply:", r.stderr)
            return False
        r = sh(f"cd {WT} && /venv/bin/python {demo}")
        ran["demo_patched_rc"] = r.returncode
        ran["demo_patched_tail"] = (r.stdout + r.stderr)[-400:]
        r = sh(f"python3 {VERIF}/tools/baseline_wt.py {WT}")
        ran["baseline_rc"] = r.returncode
        ran["baseline_tail"] = r.stdout[-300:]
        ok = ran["demo_clean_rc"] == 0 and ran["demo_patched_rc"] != 0 and ran["baseline_rc"] == 0 and "pipefunc imported from: " + WT in r.stdout
        print(json.dumps(ran, indent=1))
        if not ok:
            print("NOT KEPT")
            return False
        dst = os.path.join(SEEDED, f"{prop}_{name}")
        os.makedirs(dst, exist_ok=True)
        shutil.copy(patch, os.path.join(dst, "patch.diff"))
        shutil.copy(demo, os.path.join(dst, "demo.py"))
        notes = open(os.path.join(src, "notes.txt")).read() if os.path.exists(os.path.join(src, "notes.txt")) else ""
        meta = {
            "property": prop,
            "needs_to_manifest": notes.strip(),
            "source": "independent sub-agent given only the property text and a scratch worktree",
            "confirmed": {
                "what_i_ran": [
                    f"git worktree add {WT}; /venv/bin/python demo.py (exit 0 on the clean tree)",
                    "git apply patch.diff; /venv/bin/python demo.py (non-zero exit with the change)",
                    "pinned test command inside the worktree: all 492 baseline tests still pass",
                ],
                **{k: v for k, v in ran.items() if k.endswith("_rc")},
            },
            "runs": {},
        }
        with open(os.path.join(dst, "meta.json"), "w") as f:
            json.dump(meta, f, indent=1)
        print("KEPT", dst)
        return True
    finally:
        sh(f"git -C /repo worktree remove --force {WT}")


def run(seed, tier="quick", worktree=False):
    """worktree=False: the patch is applied to /repo itself and undone afterwards.  worktree=True: the check runs
    against a scratch worktree of /repo's HEAD with the patch applied (VERIF_REPO + PYTHONPATH), /repo untouched -
    used when another run is reading /repo at the same time."""
    d = os.path.join(SEEDED, seed)
    meta = json.load(open(os.path.join(d, "meta.json")))
    prop = meta["property"]
    t0 = time.time()
    if worktree:
        wt = f"/tmp/wt_seedrun_{seed}"
        sh(f"git -C /repo worktree remove --force {wt}")
        r = sh(f"git -C /repo worktree add -q --detach {wt} HEAD")
        assert r.returncode == 0, r.stderr
        try:
            r = sh(f"git -C {wt} apply {os.path.join(d, 'patch.diff')}")
            assert r.returncode == 0, r.stderr
            r = sh(f"cd {VERIF} && VERIF_REPO={wt} PYTHONPATH={wt} ./check {prop} --tier {tier} --no-evidence --jobs 8", timeout=5400)
            out = r.stdout
        finally:
            sh(f"git -C /repo worktree remove --force {wt}")
    else:
        st = sh("git -C /repo status --porcelain --untracked-files=no").stdout.strip()
        assert not st, "/repo has uncommitted changes: " + st
        r = sh(f"git -C /repo apply {os.path.join(d, 'patch.diff')}")
        assert r.returncode == 0, r.stderr
        try:
            r = sh(f"cd {VERIF} && ./check {prop} --tier {tier} --no-evidence", timeout=3600)
            out = r.stdout
        finally:
            sh("git -C /repo checkout -- .")
    viol = [l for l in out.splitlines() if l.startswith("VIOLATION")]
    summary = [l for l in out.splitlines() if l.startswith(prop + " ")]
    meta["runs"][tier] = {
        "exit_code": r.returncode,
        "detected": r.returncode == 1 and bool(viol),
        "violations": [l[:400] for l in viol[:6]],
        "n_violations": len(viol),
        "harness_errors": [l[:300] for l in out.splitlines() if l.startswith("HARNESS-ERROR")][:4],
        "summary": summary[-1] if summary else "",
        "wall_s": round(time.time() - t0, 1),
        "repo_head": sh("git -C /repo rev-parse --short HEAD").stdout.strip(),
        "mode": "scratch worktree of /repo HEAD + patch" if worktree else "patch applied to /repo, undone afterwards",
        "verif_head": sh(f"git -C {VERIF} rev-parse --short HEAD").stdout.strip(),
    }
    with open(os.path.join(d, "meta.json"), "w") as f:
        json.dump(meta, f, indent=1)
    print(seed, tier, "DETECTED" if meta["runs"][tier]["detected"] else "MISSED", "rc=", r.returncode, meta["runs"][tier]["summary"])
    for l in viol[:3]:
        print("   ", l[:260])
    return meta["runs"][tier]["detected"]


if __name__ == "__main__":
    cmd = sys.argv[1]
    if cmd == "verify":
        sys.exit(0 if verify(*sys.argv[2:5]) else 1)
    if cmd == "run":
        run(sys.argv[2], sys.argv[3] if len(sys.argv) > 3 and not sys.argv[3].startswith("--") else "quick", worktree="--worktree" in sys.argv)
    if cmd == "runall":
        tier = sys.argv[2] if len(sys.argv) > 2 else "quick"
        for seed in sorted(os.listdir(SEEDED)):
            m = json.load(open(os.path.join(SEEDED, seed, "meta.json")))
            if tier not in m.get("runs", {}) or "--force" in sys.argv:
                run(seed, tier, worktree="--worktree" in sys.argv)

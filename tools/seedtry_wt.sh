#!/bin/sh
# usage: tools/seedtry_wt.sh <seed> <prop> [check args...]
# exploratory: run a (partial) check against a scratch worktree of /repo with the stored seed applied, leaving /repo untouched
# (VERIF_REPO + PYTHONPATH select the tree).  The recorded seed runs (tools/seed.py run) apply the patch to /repo itself.
seed=$1; prop=$2; shift 2
wt=/tmp/wt_try_$seed
git -C /repo worktree remove --force $wt 2>/dev/null
git -C /repo worktree add -q --detach $wt HEAD || exit 3
git -C $wt apply /verif/seeded/$seed/patch.diff || exit 3
cd /verif && VERIF_REPO=$wt PYTHONPATH=$wt ./check $prop --no-evidence "$@" 2>&1 | grep -E "^VIOLATION|^HARNESS|^$prop |inconclusive:" | cut -c1-300
git -C /repo worktree remove --force $wt

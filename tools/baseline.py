#!/usr/bin/env python3
"""Run the pinned test command (guard off) and compare with BASELINE.json's stable_pass list."""
import json, subprocess, sys, tempfile, os, xml.etree.ElementTree as ET
base = json.load(open("/root/.vp/BASELINE.json"))
out = tempfile.mktemp(suffix=".xml")
env = dict(os.environ); env.pop("PIPEFUNC_VERIF", None)
cmd = base["cmd"].replace("<file>", out)
subprocess.run(cmd, shell=True, env=env, stdout=subprocess.DEVNULL, stderr=subprocess.DEVNULL)
passed = set()
for tc in ET.parse(out).getroot().iter("testcase"):
    if not any(c.tag in ("failure", "error", "skipped") for c in tc):
        passed.add(f"{tc.get('classname')}::{tc.get('name')}")
os.remove(out)
missing = [t for t in base["stable_pass"] if t not in passed]
print(f"passed={len(passed)} baseline={len(base['stable_pass'])} missing={len(missing)}")
for m in missing: print("  MISSING", m)
sys.exit(1 if missing else 0)

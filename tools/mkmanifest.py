#!/usr/bin/env python3
"""Regenerates /verif/MANIFEST.json from the table below (kept valid at all times)."""
import json
import os

VERIF = os.path.dirname(os.path.dirname(os.path.abspath(__file__)))
TECH = "symbolic execution of the real /repo code (CrossHair 0.0.110 + z3 5.1), bounded"

# property -> (level text, level note, design section, technique)
CLAIMED = {
    "C01": (
        "Bounded solver-based check of Pipeline.map(parallel=False) on 17 pipeline templates (element-wise, zip, outer product, partial and "
        "full reductions, generator with internal shape, internal axis leading/trailing, tuple outputs, 2-D ndarray inputs, rank-3 outer "
        "product with middle-axis reduction, unlisted parameters, re-used axis names, no-MapSpec upstream, mixed-rank zip, bound/default "
        "precedence) x storages (dict, file_array; dict_sub in the thorough tier): every element of every output and of load_outputs equals an "
        "independent denotational evaluator for ALL integer input values (distinguishing linear forms) and all axis sizes in the bound; each "
        "function is called exactly once per output index.",
        "Trusted: z3, CrossHair path exhaustion and builtin models, token pickle (S3), message-format stub (S2). Axis sizes are case-split "
        "(1..3 dict / 1..2 file_array quick; 1..3 thorough). Outside: sizes > 3, rank > 3, zarr, real shared_memory_dict, parallel=True (C03).",
        "6 C01",
        TECH,
    ),
    "C02": (
        "Bounded solver-based check of pipeline(...), Pipeline.run(full_output) and Pipeline.func on 9 function tables (chain, diamond, tuple-output "
        "diamond with default and bound value, nullary function, shared defaulted parameter, disconnected components, tuple leaf, renamed "
        "parameters, bound roots): for every output, every valid set of supplied names (roots, interior cuts, mixed; computed by an independent "
        "evaluator), every listing order and ALL integer values, the result equals the recursive composition (bound > keyword > upstream > "
        "default), exactly the needed functions run once and dependencies first, full_output holds the intermediates (also when an intermediate is None / 0 / an empty container), surplus keywords raise; "
        "arg_combinations/root_args are compared with the semantic definition. One recorded finding is pinned.",
        "Trusted: z3, CrossHair path exhaustion and builtin models. Outside: > 5 functions, non-integer values, lazy (C18), cache (C09), scopes (C10).",
        "6 C02",
        TECH,
    ),
    "C03": (
        "Bounded solver-based check with symbolic schedules: a controllable concurrent.futures.Executor (public executor= argument, one executor, "
        "default-dict, different executor per output) completes the submitted tasks in an order chosen by symbolic integers (all orders of up to 4 "
        "pending tasks, first 3-4 choices; 4-5 in the thorough tier). For MAP-T templates with several tasks / functions per generation and dict, "
        "file_array, dict_sub and per-output storage mixes, with and without a run folder: results, stored data and load_outputs equal the denotation for ALL integer inputs, "
        "each function is invoked exactly once per index, and no function is invoked before all values it consumes are complete. map_async is "
        "driven through a real asyncio event loop with an executor whose tasks complete in a symbolic order.",
        "Trusted: z3, CrossHair path exhaustion and builtin models; token pickle. Tasks interleave at task granularity only (single thread). Outside: "
        "real thread / process pools and OS scheduling (a storage that dumps inside a pool worker - seeded change C03_a3 - is not detected), real shared_memory_dict.",
        "6 C03",
        TECH,
    ),
    "C04": (
        "Bounded solver-based check: Pipeline.map(run_folder=F, parallel=False) on MAP-T templates x storage choices (file_array, dict, dict_sub, "
        "per-output mixes with tuple keys) with persist_memory symbolic, then load_outputs for every output (single and multi-name, twice) equals "
        "the denotation for ALL integer inputs (incl. a three-output function and root inputs that share a scope); RunInfo.load(F) restores inputs, defaults, output names, MapSpec strings, shapes, masks, internal "
        "shapes and the per-output storage choice; init_store of the reloaded object yields the same storage classes and geometry; loading is "
        "idempotent and runs no user function; an unpersisted memory storage does not reload values.",
        "Trusted: z3, CrossHair path exhaustion and builtin models; cloudpickle replaced by a token table on a real tmpfs directory; JSON encoded "
        "natively after realisation. Same process only. Outside: fresh interpreter, load_xarray_dataset, real shared_memory_dict, zarr.",
        "6 C04",
        TECH,
    ),
    "C05": (
        "Bounded solver-based crash/resume check: the crash point is a symbolic integer over the file-system events of Pipeline.map (mkdir, "
        "open-for-write, one flush per file, rename, rmtree, unlink; 19-60 events per template), with a symbolic torn-write kind (before the "
        "write / half written / created-but-empty). After the simulated death a freshly built pipeline resumes with cleanup=False: it must "
        "complete, equal the uninterrupted denotation for ALL integer inputs, not recompute elements whose files were complete, and recompute "
        "no more than the interrupted invocation explains. Templates T1, T5, T7, T8, T13 x file_array / dict+persist; two successive crashes "
        "in the thorough tier; user-function failure at a symbolic call index followed by a re-run; stored results of functions without MapSpec (incl. None) are not recomputed either.",
        "Trusted: z3, CrossHair path exhaustion and builtin models; process death modelled as a BaseException at an intercepted FS event with torn "
        "buffers; rename atomic; token pickle on a real tmpfs. Outside: worker processes dying under parallel=True, fsync-level reordering.",
        "6 C05",
        TECH,
    ),
    "C06": (
        "Bounded solver-based check: for MAP-T templates with an independent axis (10 templates, every independent axis) the axis is partitioned "
        "into ints / negative ints / two slices / step-2 slices / negative-step slices, the parts are run with map(fixed_indices=..., cleanup=False) "
        "in given or reversed order; after each part exactly the selected elements are present in the run folder and equal the denotation for ALL "
        "integer inputs, at the end the stored data equal a full run, no element was computed twice and a final full run calls no user function. "
        "Fixing a reduced axis (every reduced axis of the template, incl. arrays reduced along different axes by different consumers), an unknown axis or an out-of-range index (symbolic) is rejected before any call. create_learners (with a symbolic "
        "split_independent_axes) executed by simple_run or generation-wise in two orders stores the same data.",
        "Trusted: z3, CrossHair path exhaustion and builtin models; token pickle; the adaptive package runs traced. Axis sizes (1..3, 2 for rank-3) and "
        "partition modes are case-split. Outside: adaptive.Runner with executors, to_slurm_run, create_learners_from_sweep, sizes > 4.",
        "6 C06",
        TECH,
    ),
    "C07": (
        "Bounded solver-based check: normalize_key and select_by_mask are confirmed over all paths for every mask of rank <= 3 with "
        "unbounded integer keys and axis sizes; DictArray and FileArray operation sequences (two dumps, one read of every kind - incl. keys whose axes are independently ints or one-element / empty / open / strided slices -, "
        "optional persist/reopen) are confirmed against a pure-Python masked-array reference for the listed geometries with symbolic "
        "keys, values and linear indices. Counterexamples are replayed concretely before being reported.",
        "Trusted: z3, CrossHair's path exhaustion and builtin models, the token-table stand-in for cloudpickle on a real tmpfs "
        "directory. Outside: rank > 3, sizes > 3, zarr, manager-backed shared_memory_dict.",
        "6 C07",
        TECH,
    ),
    "C09": (
        "Bounded solver-based check with a cached pipeline and its uncached twin (RUN-T diamond, tuple-output diamond with default and bound value, "
        "shared default): histories of two calls - same output, every choice of root-only or intermediate-supplying argument sets, equal or "
        "different values (hashed, hence 0..1), full_output symbolic - optionally with update_defaults / update_bound / replace applied to both "
        "twins in between; cache type lru / simple (hybrid, disk and every subset of cached functions in the thorough tier). Every call that "
        "succeeds uncached returns an equal value (and equal full_output) cached; a repeated equal call does not re-execute a cached function. "
        "Caches with max_size 1 (overflowing within one call) are included for values and exceptions. Pipeline.map with a cache on every function and repeated input values equals the denotation, twice.",
        "Trusted: z3, CrossHair path exhaustion and builtin models (incl. repair R9 of its dict union). Outside: shared (manager) caches, parallel "
        "shared-cache maps, lazy pipelines, histories longer than 2-3 calls.",
        "6 C09",
        TECH,
    ),
    "C10": (
        "Bounded solver-based check that rewrites preserve what is computed: copy, cloudpickle round trip, join, |, update_renames, update_scope "
        "(dotted keys and nested dicts) and its removal, nest_funcs('*') and over every connected subset, simplified_pipeline, split_disconnected, "
        "and compositions of two or three (incl. in-place update_scope / update_renames on the product of a copy, join or pickle round trip) are applied to RUN-T pipelines; original and rewritten pipeline are evaluated on "
        "the same ALL-integer symbolic inputs for every output, the original must be unchanged, and a later update_defaults on either object must "
        "not affect the other. The same rewrites followed by map on MAP-T templates equal the denotation. add_mapspec_axis lifts pointwise: "
        "every dependent output gains the axis and its slice n equals the original result for p = p[n]; other outputs are unchanged. Two "
        "recorded findings (nesting with a bound-only parameter; nested multi-output leaf) are pinned.",
        "Trusted: z3, CrossHair path exhaustion and builtin models; rewrites run natively on concrete objects, evaluation is symbolic. Outside: > 3 "
        "composed rewrites, resources/profiling attributes, pickling into another interpreter.",
        "6 C10",
        TECH,
    ),
    "C11": (
        "Bounded solver-based check of Pipeline.subpipeline(I, S), map(output_names=S) and map(auto_subpipeline=True): on the RUN-T tables every "
        "candidate (S of size 1..2, I every minimal computable set of provided names - roots, interior, mixed - and each with one member removed) "
        "is decided against an independent computability/neededness reference: computable requests succeed, contain exactly the needed functions, "
        "return the composed values for ALL integers and run only needed functions; non-computable ones are rejected. On MAP-T templates "
        "(T4, T5, T8, T12, T13, T16, and TG whose MapSpecs are generated by add_mapspec_axis) listed (S, provided intermediates) choices are mapped and compared element-wise with the denotation, with "
        "per-function call counts; a missing needed input is rejected before user code. Three recorded findings are pinned to their regions.",
        "Trusted: z3, CrossHair path exhaustion and builtin models. (S, I) candidates and axis sizes are case-split. Outside: surplus provided names, "
        "> 5 functions, scopes, parallel maps.",
        "6 C11",
        TECH,
    ),
    "C12": (
        "Bounded solver-based check that ill-formed requests are rejected before any user function runs and without altering an existing run "
        "folder: zipped inputs of symbolic lengths (rejected iff unequal), list / ndarray of symbolic rank for a 2-D MapSpec input, every subset "
        "of supplied root arguments plus a surplus name (fresh or named like an output), three symbolic defaults of a shared parameter (rejected iff they differ), registered "
        "and unknown storage names (as a string and anywhere in a per-output dict), executor with parallel=False, missing / short internal shapes, and nine structural faults (duplicate "
        "outputs, output named like an own parameter, cycle, inconsistent axes, MapSpec/function mismatch); valid neighbours are accepted and "
        "give the denoted result.",
        "Trusted: z3, CrossHair path exhaustion and builtin models; run-folder snapshots compare names, JSON content and pickled objects. Outside: "
        "type-annotation faults (C16), scope faults.",
        "6 C12",
        TECH,
    ),
    "C13": (
        "Bounded solver-based check of failure propagation: a user function raises in its k-th call (k symbolic, also beyond the last call) one of "
        "three exception kinds (symbolic) during Pipeline.map (sequential and through a symbolic-order executor; dict / file_array) and during "
        "pipeline(...): the same type and args surface, the annotation names the failing function and its keyword arguments, no function that "
        "depends on the failing one is invoked, the call returns, the pipeline and the function expose an ErrorSnapshot whose reproduce() - also "
        "after save_to_file/load_from_file - raises the same exception, and results completed before the failure are loadable; a second failure (also of the very same exception object) is annotated with its own arguments; with profile=True no thread started by the failing call is left running.",
        "Trusted: z3, CrossHair path exhaustion and builtin models; token pickle. Inputs are 0..1 because the annotation formats them. Outside: "
        "process pools, map_async, the exact text of messages.",
        "6 C13",
        TECH,
    ),
    "C14": (
        "Bounded solver-based check of the real cache classes (shared=False): every abstract state reachable with <= 3 distinct puts "
        "(all key orders), then one (quick) or two (thorough) operations with symbolic opcode/key/value, observed through the public "
        "API only (presence, get, len, and the eviction order probed with fresh puts) against an LRU / score / oldest-file model; "
        "HybridCache durations and the memoize clock are symbolic reals; DiskCache runs on tmpfs with a logical ctime and is re-opened.",
        "Trusted: z3, CrossHair path exhaustion and builtin models; floats modelled as finite reals (score ties tolerated at relative 1e-9); "
        "logical ctime clock; token pickle. Outside: shared=True / multi-process, pickling guard, max_size > 3, keys outside 0..3.",
        "6 C14",
        TECH,
    ),
    "C17": (
        "Bounded solver-based check of Sweep/MultiSweep/count_sweep against a list-comprehension definition: <= 3 keys (4 in the thorough tier), "
        "every partition of the keys into dims groups (and dims=None, reversed orders), list lengths 0..3 symbolic, elements / constants / "
        "deriver inputs unbounded symbolic ints, optional constants, derivers, exclude; product of 2 and 3 sweeps, + / MultiSweep in six nesting forms, "
        "filtered_sweep, count_sweep. Three recorded findings are pinned to their isolating members (KNOWN-FINDING).",
        "Trusted: z3, CrossHair path exhaustion and builtin models. List lengths are realised (case split). Outside: > 4 keys, lists longer than 3, "
        "unhashable values, use_pandas, set_cache_for_sweep.",
        "6 C17",
        TECH,
    ),
    "C18": (
        "Bounded solver-based check of lazy=True pipelines on the RUN-T function tables: for every output, ALL integer root arguments and every "
        "valid set of supplied intermediates, nothing runs before evaluate(), evaluate() equals the eager composition and the eager twin, every "
        "needed function runs exactly once (diamonds, tuple outputs, repeated evaluate(), producers that return None / 0 / empty containers); under construct_dag() the recorded graph is acyclic, "
        "its function nodes are exactly the needed functions and its edges (picker nodes contracted) exactly the producer-consumer pairs.",
        "Trusted: z3, CrossHair path exhaustion and builtin models. Under construct_dag() arguments are hashed by the task-graph cache, so values "
        "are 0..1 there. Outside: > 5 functions, lazy map.",
        "6 C18",
        TECH,
    ),
    "C20": (
        "Bounded solver-based check of Resources. E1 (CrossHair): constructor validity, combine_max over 1..4 operands, update, "
        "with_defaults / maybe_with_defaults, from_dict(dict()) and to_slurm_options with optional *unbounded* integer quantities and "
        "field-by-field purity snapshots. E2 (AST -> z3 interpreter of the real source): for all wall-time strings (2-4 fields, leading "
        "field <= 3 digits) and all memory strings (<= 4 digits, optional <= 2 fraction digits, every unit pair in the thorough tier) "
        "combine_max picks a maximal duration / size and never drops a set value; accepted / rejected string shapes decided as regex "
        "inclusion / disjointness. One recorded finding (gpus=0 not mentioned by to_slurm_options) is pinned.",
        "Trusted: z3, CrossHair path exhaustion and builtin models; E2 translator (validated on the repo's own test literals on every run), "
        "floats as reals in memory sizes. Outside: callable resources, partition / extra_args merge order, longer digit strings.",
        "6 C20",
        TECH + "; AST-to-SMT translation of string kernels (z3 strings/regex)",
    ),
    "C15": (
        "Bounded solver-based check of to_hashable / memoize on values whose structure comes from a listed grammar (list, tuple, dict, "
        "OrderedDict, defaultdict, Counter, set, deque with/without maxlen, bytearray, nested one level; <= 3 elements) and whose leaves are "
        "unbounded symbolic ints: for every listed pair of structures key(v1) == key(v2) iff the values are equal and of the same types; keys "
        "are hashable and stable; insertion order is (in)significant as documented; memoize returns a stored result only for equal arguments passed in the same way (twelve positional / keyword call shapes).",
        "Trusted: z3, CrossHair path exhaustion and builtin models; hash() of a symbolic leaf answered without realisation (S8). Outside: NumPy / "
        "pandas / pickled objects, cross-interpreter key equality, values embedding the conversion marker.",
        "6 C15",
        TECH,
    ),
    "C08": (
        "Bounded solver-based check of MapSpec: shape_to_strides/_shape_to_key (key in range, denotes the linear index - hence every position "
        "once, row-major) for rank <= 3 with *unbounded* sizes and index; output_key/input_keys/shape of fixed specs with unbounded sizes; a "
        "generated family of well-formed specs (<= 2 inputs of rank <= 2, axis choice i/j/':' per axis, output order, internal axis position, 1-2 "
        "outputs, whitespace variants) checked for from_string/str round trip, shape()/mask or ValueError, index maps over all linear indices, "
        "rename and add_axes; listed malformed strings and objects must be rejected. One recorded finding (parser leniency) is pinned.",
        "Trusted: z3, CrossHair path exhaustion and builtin models. The string half is decided on structure: strings are concrete on each path "
        "(CrossHair cannot close regex matching over free symbolic strings). Outside: > 2 inputs/outputs, rank > 3, other names.",
        "6 C08",
        TECH,
    ),
}

NOT_APPLICABLE = {
    "C16": "type-annotation compatibility is a recursive dispatch over concrete typing objects; there is no value domain for a solver "
    "to range over, the check would degenerate into enumerating concrete annotation pairs (DESIGN section 7)",
    "C19": "every value crosses into xarray/pandas C code where it is realised and dimension/coordinate assignment depends on concrete "
    "MapSpec structure only; a probe did not close in 200 s and nothing symbolic reaches the assertion (DESIGN section 7)",
}
NOT_YET = "check not built yet in this round (planned, see DESIGN section 9.1)"

ALL = [f"C{n:02d}" for n in range(1, 21)]


def main():
    checks = []
    for pid in ALL:
        if pid not in CLAIMED:
            continue
        text, note, ref, tech = CLAIMED[pid]
        checks.append(
            {
                "property_id": pid,
                "quick_cmd": f"./check {pid} --tier quick",
                "thorough_cmd": f"./check {pid} --tier thorough",
                "evidence_file": f"/verif/evidence/{pid}.json",
                "replay_cmd_template": f"./check {pid} --replay {{path}}",
                "engine": "chx",
                "level_claimed": {"category": "model_checking", "text": text, "design_ref": ref},
                "level_note": note,
                "technique": tech,
            }
        )
    na = []
    for pid in ALL:
        if pid in CLAIMED:
            continue
        na.append({"property_id": pid, "reason": NOT_APPLICABLE.get(pid, NOT_YET)})
    m = {
        "version": 1,
        "setup_cmd": "sh ./setup.sh",
        "hooks": {
            "guard": "PIPEFUNC_VERIF",
            "enable": "no source hooks: all interception is done by monkey-patching inside the harness processes; the guard name is unused by /repo",
            "baseline_off_cmd": "cd /repo && /venv/bin/python -m pytest -ra -q -p no:cacheprovider --timeout=900 --continue-on-collection-errors",
            "source_commits": [],
            "add_only": True,
        },
        "engines": [
            {
                "name": "chx",
                "path": "engine/",
                "serves_properties": sorted(CLAIMED),
                "kind_free_text": "CrossHair 0.0.110 (symbolic execution of Python with z3) driven through its API on generated PEP 316 obligations that call "
                "the real /repo code; repairs/stubs in engine/shims.py; concrete replay of every counterexample in a clean interpreter",
            }
        ],
        "checks": checks,
        "not_applicable": na,
        "notes": "Exit codes: 0 property held on everything explored (KNOWN-FINDING lines allowed), 1 VIOLATION (replayed), 2 harness error. "
        "Inconclusive obligations (timeout / solver unknown) are listed in the evidence and never counted as discharged.",
    }
    with open(os.path.join(VERIF, "MANIFEST.json"), "w") as f:
        json.dump(m, f, indent=1)
    print("claimed:", sorted(CLAIMED), "n/a:", [x["property_id"] for x in na])


if __name__ == "__main__":
    main()

#!/usr/bin/env python3
"""Regenerates the seeded-change table in DESIGN.md (between the SEEDED markers) from seeded/*/meta.json."""
import json, os, re
V = os.path.dirname(os.path.dirname(os.path.abspath(__file__)))
rows = []
for s in sorted(os.listdir(os.path.join(V, "seeded"))):
    m = json.load(open(os.path.join(V, "seeded", s, "meta.json")))
    need = " ".join(m.get("needs_to_manifest", "").split())[:230]
    q = m.get("runs", {}).get("quick")
    t = m.get("runs", {}).get("thorough")
    def cell(r):
        if not r: return "-"
        if r["detected"]:
            obs = sorted({re.search(r"obligation=(\S+)", v).group(1) for v in r["violations"] if re.search(r"obligation=(\S+)", v)})
            return "caught by " + ", ".join(obs[:3]) + (" ..." if r["n_violations"] > 3 else "")
        return "MISSED" + (" (exit 2)" if r["exit_code"] == 2 else "")
    rows.append(f"| {s} | {m['property']} | {need} | {cell(q)} | {cell(t)} |")
table = "| seed | property | what the change is / needs to manifest | quick tier | thorough tier |\n|---|---|---|---|---|\n" + "\n".join(rows)
p = os.path.join(V, "DESIGN.md")
s = open(p).read()
a, b = "<!-- SEEDED:BEGIN -->", "<!-- SEEDED:END -->"
if a in s:
    s = s[: s.index(a) + len(a)] + "\n" + table + "\n" + s[s.index(b):]
    open(p, "w").write(s)
print(table)

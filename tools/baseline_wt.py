#!/usr/bin/env python3
"""usage: baseline_wt.py <worktree>  -- runs the pinned test command inside <worktree> and reports
which of the 492 baseline tests (BASELINE.json stable_pass) no longer pass. Exit 0 = all still pass."""
import json, subprocess, sys, tempfile, os, xml.etree.ElementTree as ET
wt = os.path.abspath(sys.argv[1])
base = json.load(open("/root/.vp/BASELINE.json"))
out = tempfile.mktemp(suffix=".xml")
cmd = base["cmd"].replace("cd /repo", f"cd {wt}").replace("<file>", out)
r = subprocess.run(cmd, shell=True, stdout=subprocess.PIPE, stderr=subprocess.STDOUT, text=True)
chk = subprocess.run(f"cd {wt} && /venv/bin/python -c \"import sys; sys.modules['zarr']=None; import pipefunc; print(pipefunc.__file__)\"", shell=True, capture_output=True, text=True)
print("pipefunc imported from:", chk.stdout.strip())
passed = set()
for tc in ET.parse(out).getroot().iter("testcase"):
    if not any(c.tag in ("failure", "error", "skipped") for c in tc):
        passed.add(f"{tc.get('classname')}::{tc.get('name')}")
os.remove(out)
missing = [t for t in base["stable_pass"] if t not in passed]
print(f"passed={len(passed)} baseline={len(base['stable_pass'])} missing={len(missing)}")
for m in missing: print("  NO LONGER PASSING:", m)
sys.exit(1 if missing else 0)

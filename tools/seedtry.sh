#!/bin/sh
# usage: tools/seedtry.sh <seed> <prop> [check args...]  -- apply a stored seed to /repo, run a (partial) check, undo
seed=$1; prop=$2; shift 2
git -C /repo apply /verif/seeded/$seed/patch.diff || exit 3
cd /verif && ./check $prop --no-evidence "$@" 2>&1 | grep -E "^VIOLATION|^HARNESS|^$prop " | cut -c1-300
git -C /repo checkout -- .

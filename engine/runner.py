"""Expand the obligations of one property, discharge them in parallel, apply the verdict
rule of DESIGN section 5, write evidence, print VIOLATION / KNOWN-FINDING lines."""
from __future__ import annotations

import argparse
import importlib
import json
import os
import random
import re
import shutil
import subprocess
import sys
import tempfile
import time

VERIF = os.path.dirname(os.path.dirname(os.path.abspath(__file__)))
PY = sys.executable
REFUTED = ("POST_FAIL", "EXEC_ERR", "POST_ERR")


def load_known():
    p = os.path.join(VERIF, "known_findings.json")
    if not os.path.exists(p):
        return []
    with open(p) as f:
        return json.load(f).get("findings", [])


def scratch_root():
    base = "/dev/shm" if os.path.isdir("/dev/shm") and os.access("/dev/shm", os.W_OK) else tempfile.gettempdir()
    return tempfile.mkdtemp(prefix="verif_", dir=base)


class Job:
    def __init__(self, ob, gen, outdir, canary=""):
        self.ob, self.canary = ob, canary
        self.out = os.path.join(outdir, f"{ob.name}{'__' + canary if canary else ''}.json")
        self.cmd = [
            PY, "-m", "engine.worker", "--gen", gen, "--fn", ob.name, "--timeout", str(ob.timeout),
            "--out", self.out, "--flags", ",".join(ob.flags),
        ]  # fmt: skip
        if canary:
            self.cmd += ["--canary", canary]
        if not ob.twin:
            self.cmd += ["--no-twin"]
        if ob.kind == "e2":
            self.cmd += ["--e2"]
        self.hard = ob.timeout + (0 if canary or not ob.twin else 45) + 90
        self.proc = None
        self.t0 = 0.0
        self.result = None

    def start(self, env):
        self.t0 = time.time()
        self.log = open(self.out + ".log", "w")
        self.proc = subprocess.Popen(self.cmd, cwd=VERIF, env=env, stdout=self.log, stderr=subprocess.STDOUT)

    def poll(self):
        rc = self.proc.poll()
        if rc is None and time.time() - self.t0 > self.hard:
            self.proc.kill()
            self.proc.wait()
            self.result = {"fn": self.ob.name, "error": "hard timeout", "hard_timeout": True}
            return True
        if rc is None:
            return False
        self.log.close()
        if os.path.exists(self.out):
            with open(self.out) as f:
                self.result = json.load(f)
        else:
            with open(self.out + ".log") as f:
                self.result = {"fn": self.ob.name, "error": "worker died rc=%s: %s" % (rc, f.read()[-1500:])}
        return True


def run_jobs(jobs, nproc, env):
    pending = list(jobs)
    running = []
    while pending or running:
        while pending and len(running) < nproc:
            j = pending.pop(0)
            j.start(env)
            running.append(j)
        time.sleep(0.05)
        running = [j for j in running if not j.poll()]


def replay(gen, fn, args, outdir, env):
    af = os.path.join(outdir, fn + ".args.json")
    of = os.path.join(outdir, fn + ".replay.json")
    with open(af, "w") as f:
        json.dump(args, f)
    try:
        subprocess.run(
            [PY, "-m", "engine.replay", "--gen", gen, "--fn", fn, "--args", af, "--out", of],
            cwd=VERIF, env=env, timeout=600, stdout=subprocess.DEVNULL, stderr=subprocess.DEVNULL,
        )  # fmt: skip
        with open(of) as f:
            return json.load(f)
    except Exception as e:  # noqa: BLE001
        return {"outcome": "replay_error", "detail": repr(e)}


def main() -> int:  # noqa: C901, PLR0912, PLR0915
    if os.environ.get("PYTHONHASHSEED") != "0":
        # obligation families are enumerated both here and in the workers: same hash seed everywhere
        os.environ["PYTHONHASHSEED"] = "0"
        os.execv(sys.executable, [sys.executable, "-m", "engine.runner", *sys.argv[1:]])
    ap = argparse.ArgumentParser()
    ap.add_argument("prop")
    ap.add_argument("--tier", default=os.environ.get("VERIF_TIER", "quick"), choices=["quick", "thorough"])
    ap.add_argument("--replay", default="")
    ap.add_argument("--only", default="")
    ap.add_argument("--jobs", type=int, default=int(os.environ.get("VERIF_JOBS", "0")) or (os.cpu_count() or 4))
    ap.add_argument("--keep", action="store_true")
    ap.add_argument("--no-evidence", action="store_true")
    ap.add_argument("--scale", type=float, default=float(os.environ.get("VERIF_TIMEOUT_SCALE", "1")))
    a = ap.parse_args()
    seed = int(os.environ.get("VERIF_SEED", "0") or 0)
    t_start = time.time()
    sys.modules["zarr"] = None
    sys.path.insert(0, VERIF)
    from engine.ob import generate_source

    hm = f"harness.{a.prop}"
    H = importlib.import_module(hm)
    env = dict(os.environ)
    env["PYTHONPATH"] = VERIF + os.pathsep + env.get("PYTHONPATH", "")
    env["PYTHONHASHSEED"] = "0"
    env.pop("VERIF_SYMBOLIC", None)
    root = scratch_root()
    env["VERIF_SCRATCH"] = root
    try:
        if a.replay:
            with open(a.replay) as f:
                rp = json.load(f)
            obs = [o for o in H.obligations("thorough") if o.name == rp["obligation"]]
            if not obs:
                print(f"HARNESS-ERROR: obligation {rp['obligation']} no longer exists")
                return 2
            gen = os.path.join(root, f"gen_{a.prop}.py")
            with open(gen, "w") as f:
                f.write(generate_source(hm, obs))
            r = replay(gen, rp["obligation"] + ("__replay" if obs[0].kind == "e2" else ""), rp["args"], root, env)
            print(json.dumps(r, indent=1))
            return 1 if r.get("outcome") in ("false", "raised") else 0

        all_obs = H.obligations(a.tier)
        obs = [o for o in all_obs if a.tier == "thorough" or o.tier == "quick"]
        if a.only:
            obs = [o for o in obs if re.search(a.only, o.name)]
        for o in obs:
            o.timeout *= a.scale
        random.Random(seed).shuffle(obs)
        obs.sort(key=lambda o: -o.timeout)  # longest first
        gen = os.path.join(root, f"gen_{a.prop}.py")
        with open(gen, "w") as f:
            f.write(generate_source(hm, obs))
        jobs = [Job(o, gen, root) for o in obs]
        cjobs = []
        if a.tier == "thorough":
            cjobs = [Job(o, gen, root, canary=c) for o in obs for c in o.canaries]
        run_jobs(jobs + cjobs, a.jobs, env)

        known = [k for k in load_known() if k.get("property") == a.prop and k.get("status", "open") == "open"]
        rows, violations, known_hits, harness_errors = [], [], [], []
        tot = {"paths": 0, "z3_calls": 0, "z3_s": 0.0}
        functions = set()
        assumptions = []
        os.makedirs(os.path.join(VERIF, "evidence", "replays"), exist_ok=True)
        for j in jobs:
            r, ob = j.result, j.ob
            row = {"obligation": ob.name, "signature": ob.signature(), "bounds": ob.bounds, "timeout_s": ob.timeout}
            rows.append(row)
            if "error" in r and "main" not in r:
                row["verdict"] = "inconclusive"
                row["reason"] = "engine: " + r["error"][-300:]
                continue
            m, tw = r["main"], r.get("twin")
            for part in (m, tw or {}):
                for k in tot:
                    tot[k] += part.get(k, 0)
            functions.update(r.get("functions_encoded", []))
            for s in r.get("assumptions", []):
                if s not in assumptions:
                    assumptions.append(s)
            row.update(state=m["state"], paths=m["paths"], z3_calls=m["z3_calls"], z3_s=m["z3_s"], wall_s=m["wall_s"])
            if tw:
                row["twin_state"] = tw["state"]
                if tw.get("ce"):
                    row["twin_model"] = tw["ce"]
            if m["state"] == "CONFIRMED":
                if not ob.twin or ob.kind == "e2":
                    row["verdict"] = "discharged"
                elif tw and tw["state"] in REFUTED:
                    row["verdict"] = "discharged"
                elif tw and tw["state"] == "CONFIRMED":
                    row["verdict"] = "vacuous"
                    harness_errors.append(f"{ob.name}: twin confirmed (obligation can never return True)")
                elif tw and tw["state"] == "PRE_UNSAT":
                    row["verdict"] = "vacuous"
                    harness_errors.append(f"{ob.name}: preconditions unsatisfiable")
                else:
                    row["verdict"] = "inconclusive"
                    row["reason"] = "confirmed but twin " + (tw["state"] if tw else "missing")
            elif m["state"] in REFUTED:
                ce = m.get("ce") or {}
                if not ce or "__error__" in ce:
                    row["verdict"] = "inconclusive"
                    row["reason"] = "counterexample arguments not captured: " + m["message"][:200]
                    harness_errors.append(f"{ob.name}: counterexample not captured")
                    continue
                rr = replay(gen, ob.name + ("__replay" if ob.kind == "e2" else ""), ce, root, env)
                if rr.get("outcome") == "true" and "realfloat" in ob.flags:
                    # floats are modelled as reals: the solver's model typically sits exactly on a decision boundary
                    # (a tie), where IEEE rounding decides differently.  A genuine violation holds in an open
                    # neighbourhood on one side of the boundary: look for it with small deterministic perturbations.
                    rnd = random.Random(12345)
                    for _try in range(24):
                        ce2 = {k: (v * (1 + rnd.choice((-1, 1)) * 10 ** rnd.uniform(-6, -2)) if isinstance(v, float) else v) for k, v in ce.items()}
                        r2 = replay(gen, ob.name, ce2, root, env)
                        if r2.get("outcome") in ("false", "raised"):
                            ce, rr = ce2, r2
                            row["perturbed_from"] = m.get("ce")
                            break
                row["counterexample"] = ce
                row["replay"] = {k: rr.get(k) for k in ("outcome", "signature", "detail")}
                if rr.get("outcome") in ("false", "raised"):
                    sig = rr.get("signature", "")
                    hit = next(
                        (k for k in known if re.fullmatch(k["obligation"], ob.name) and re.search(k["signature"], sig)),
                        None,
                    )
                    rp_path = os.path.join(VERIF, "evidence", "replays", f"{a.prop}_{ob.name}.json")
                    with open(rp_path, "w") as f:
                        json.dump(
                            {
                                "property": a.prop, "obligation": ob.name, "args": ce, "replay": rr,
                                "engine_message": m["message"],
                                "cmd": f"./check {a.prop} --replay {os.path.relpath(rp_path, VERIF)}",
                            }, f, indent=1,
                        )  # fmt: skip
                    if hit:
                        row["verdict"] = "known_finding"
                        row["known"] = hit["id"]
                        known_hits.append((hit, ob.name, ce, sig))
                    else:
                        row["verdict"] = "violation"
                        violations.append((ob.name, rp_path, sig, ce))
                else:
                    row["verdict"] = "inconclusive"
                    row["reason"] = f"counterexample did not replay ({rr.get('outcome')}): engine/stub artefact"
                    harness_errors.append(f"{ob.name}: counterexample {ce} did not replay: {m['message'][:200]}")
            else:
                row["verdict"] = "inconclusive"
                row["reason"] = m["state"] + ": " + m["message"][:200]
        canary_rows = []
        for j in cjobs:
            r = j.result
            st = r.get("main", {}).get("state", "ERROR")
            canary_rows.append({"obligation": j.ob.name, "canary": j.canary, "state": st, "killed": st in REFUTED})
            for k in tot:
                tot[k] += r.get("main", {}).get(k, 0)

        discharged = [r for r in rows if r["verdict"] == "discharged"]
        inconcl = [r for r in rows if r["verdict"] == "inconclusive"]
        wall = round(time.time() - t_start, 2)
        samples = []
        for r in (discharged + [x for x in rows if x["verdict"] in ("known_finding", "violation")])[:6]:
            samples.append(
                {k: r.get(k) for k in ("obligation", "signature", "verdict", "twin_model", "counterexample", "paths") if r.get(k) is not None}
            )
        evidence = {
            "property_id": a.prop,
            "tier": a.tier,
            "seed": seed,
            "level": "model_checking",
            "coverage": {
                "evaluations": int(tot["paths"]),
                "distinct_nontrivial": len(discharged),
                "rule": "one evaluation = one symbolic path executed through the real /repo code (each decided by z3 "
                "over all values of the obligation's symbolic arguments); distinct_nontrivial = obligations whose "
                "path tree was exhausted with the postcondition holding on every path (CrossHair CONFIRMED) and "
                "whose reachability twin was refuted (preconditions satisfiable, assertion reached)",
                "samples": samples or [{"obligation": r["obligation"], "verdict": r["verdict"]} for r in rows[:3]],
                "obligations": len(rows),
                "discharged": len(discharged),
                "known_findings": sorted({h[0]["id"] for h in known_hits}),
                "inconclusive": [{"obligation": r["obligation"], "reason": r.get("reason", "")} for r in inconcl],
                "solver_calls": int(tot["z3_calls"]),
                "solver_s": round(tot["z3_s"], 2),
                "functions_encoded": sorted(functions),
                "bounds": {r["obligation"]: r["signature"] + (" | " + r["bounds"] if r["bounds"] else "") for r in rows},
                "per_obligation": rows,
                "canaries": canary_rows,
                "outside": getattr(H, "OUTSIDE", ""),
                "exhaustive": False,
            },
            "assumptions": assumptions + list(getattr(H, "ASSUMPTIONS", [])),
            "wall_s": wall,
            "violations": len(violations),
        }
        if not a.no_evidence and not a.only:
            os.makedirs(os.path.join(VERIF, "evidence"), exist_ok=True)
            with open(os.path.join(VERIF, "evidence", f"{a.prop}.json"), "w") as f:
                json.dump(evidence, f, indent=1)
        seen_k = set()
        for hit, name, ce, sig in known_hits:
            if hit["id"] not in seen_k:
                seen_k.add(hit["id"])
                print(f"KNOWN-FINDING: property={a.prop} {hit['what']} [{hit['id']} via {name} {json.dumps(ce)}]")
        for name, path, sig, ce in violations:
            print(f"VIOLATION property={a.prop} replay={path} obligation={name} signature={sig} args={json.dumps(ce)}")
        for h in harness_errors:
            print(f"HARNESS-ERROR: property={a.prop} {h}")
        nk = sum(1 for c in canary_rows if c["killed"])
        print(
            f"{a.prop} {a.tier}: obligations={len(rows)} discharged={len(discharged)} known={len(known_hits)} "
            f"violations={len(violations)} inconclusive={len(inconcl)} paths={tot['paths']} "
            f"z3_calls={tot['z3_calls']} z3_s={tot['z3_s']:.1f} canaries={nk}/{len(canary_rows)} wall={wall}s"
        )
        for r in inconcl:
            print(f"  inconclusive: {r['obligation']}: {r.get('reason', '')[:160]}")
        if violations:
            return 1
        if harness_errors:
            return 2
        return 0
    finally:
        if not a.keep:
            shutil.rmtree(root, ignore_errors=True)
        else:
            print("scratch kept:", root)


if __name__ == "__main__":
    sys.exit(main())

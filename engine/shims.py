"""Engine repairs R1-R6 and boundary stubs S1-S8 of DESIGN.md section 3.

`install(flags)` must be called before the harness module (and hence pipefunc)
is imported.  Every item installed here is part of the trusted base and is
listed under `assumptions` in the evidence of every check.
"""
from __future__ import annotations

import ast
import pathlib
import sys
import time

import os

REPO = os.environ.get("VERIF_REPO", "/repo")  # VERIF_REPO (+ PYTHONPATH): exploratory runs against a scratch worktree; the registered commands never set it
COUNTERS = {"z3_calls": 0, "z3_s": 0.0, "paths": 0}
LAST_CE: dict = {}
ASSUMPTIONS: list[str] = []


def _collect_msg_ranges(root: str) -> dict:
    """Line ranges of `raise`, the `msg = ...` assignments feeding them, and
    statement-level print(...) / warnings.warn(...) calls (S2)."""
    out = {}
    for p in pathlib.Path(root).rglob("*.py"):
        try:
            tree = ast.parse(p.read_text())
        except SyntaxError:
            continue
        ranges = []
        for node in ast.walk(tree):
            bodies = [
                getattr(node, a)
                for a in ("body", "orelse", "finalbody")
                if isinstance(getattr(node, a, None), list)
            ]
            for body in bodies:
                for i, st in enumerate(body):
                    if (
                        isinstance(st, ast.Expr)
                        and isinstance(st.value, ast.Call)
                        and (
                            (isinstance(st.value.func, ast.Name) and st.value.func.id == "print")
                            or (
                                isinstance(st.value.func, ast.Attribute)
                                and st.value.func.attr == "warn"
                            )
                        )
                    ):
                        ranges.append((st.lineno, st.end_lineno))
                    if isinstance(st, ast.Raise):
                        ranges.append((st.lineno, st.end_lineno))
                        j = i - 1
                        while j >= 0 and isinstance(body[j], (ast.Assign, ast.AugAssign)):
                            tg = body[j].targets if isinstance(body[j], ast.Assign) else [body[j].target]
                            if not any(
                                isinstance(t, ast.Name) and t.id in ("msg", "error_message", "message")
                                for t in tg
                            ):
                                break
                            ranges.append((body[j].lineno, body[j].end_lineno))
                            j -= 1
        out[str(p)] = ranges
    return out


def install(flags=()):  # noqa: C901, PLR0915
    flags = set(flags)
    # S1: zarr unimportable
    sys.modules["zarr"] = None
    ASSUMPTIONS.append("S1 zarr unimportable (zarr backends outside the claim)")

    import crosshair.core as core
    from crosshair.core import _PATCH_REGISTRATIONS, CrossHairValue, NoTracing
    from crosshair.core import deep_realize as _deep_realize
    import crosshair.core_and_libs  # noqa: F401  (registers library patches)

    # ---- counters -------------------------------------------------------
    import z3

    _orig_check = z3.Solver.check

    def _timed_check(self, *a):
        t = time.perf_counter()
        try:
            return _orig_check(self, *a)
        finally:
            COUNTERS["z3_calls"] += 1
            COUNTERS["z3_s"] += time.perf_counter() - t

    z3.Solver.check = _timed_check
    _orig_attempt = core.attempt_call

    def _attempt(*a, **k):
        COUNTERS["paths"] += 1
        return _orig_attempt(*a, **k)

    core.attempt_call = _attempt

    # ---- R6: keep realised counterexample arguments ---------------------
    _orig_mcm = core.make_counterexample_message

    def _mcm(conditions, args, return_val=None):
        try:
            from crosshair.core import LazyCreationRepr
            from crosshair.statespace import context_statespace

            reprer = context_statespace().extra(LazyCreationRepr)
            with NoTracing():
                real = reprer.deep_realize(args)
            LAST_CE.clear()
            LAST_CE.update({k: v for k, v in real.arguments.items()})
        except Exception as e:  # pragma: no cover
            LAST_CE.clear()
            LAST_CE["__error__"] = repr(e)
        return _orig_mcm(conditions, args, return_val)

    core.make_counterexample_message = _mcm

    # ---- S2: message formatting -----------------------------------------
    msg_ranges = _collect_msg_ranges(REPO + "/pipefunc")

    def _in_msg_context():
        f = sys._getframe(2)
        while f is not None:
            fn = f.f_code.co_filename
            if fn in msg_ranges:
                ln = f.f_lineno
                return any(a <= ln <= b for a, b in msg_ranges[fn])
            f = f.f_back
        return False

    _orig_format = _PATCH_REGISTRATIONS[format]

    def _fmt_stub(obj, format_spec=""):
        with NoTracing():
            from crosshair.libimpl.builtinslib import AnySymbolicStr

            # containers (tuple of symbolic ints, ...) would realise their elements through repr()
            plain = isinstance(obj, (str, AnySymbolicStr)) or (type(obj) in (int, float, bool, type(None)))
            use = (not plain) and _in_msg_context()
        if use:
            return "<sym>"
        return _orig_format(obj, format_spec)

    _orig_repr = _PATCH_REGISTRATIONS[repr]

    def _repr_stub(obj):
        with NoTracing():
            use = _in_msg_context()
        if use:
            return "<repr>"
        return _orig_repr(obj)

    if "nofmtstub" not in flags:
        _PATCH_REGISTRATIONS[format] = _fmt_stub
        _PATCH_REGISTRATIONS[repr] = _repr_stub
        ASSUMPTIONS.append(
            "S2 text of error messages/prints/warnings not modelled "
            "(symbolic values formatted as placeholders on raise/msg/print/warn lines only)"
        )

    # ---- R1: functools.partial ------------------------------------------
    import functools

    def _partial_fixed(_f, /, *a1, **kw1):
        if not callable(_f):
            raise TypeError

        def wrapper(*a2, **kw2):
            return _f(*a2, **kw2)

        functools.update_wrapper(wrapper, _f)
        return functools.partial(wrapper, *a1, **kw1)

    _PATCH_REGISTRATIONS[functools.partial] = _partial_fixed

    # ---- R9: dict union with a CrossHair mapping on the right ---------------
    # crosshair.simplestructs.MapBase defines `__ror__ = __or__`, so `native_dict | shell_map` let the
    # LEFT operand's values win (dict union is not commutative).  `dict(x)` under the tracer returns such a
    # shell map; pipefunc's `defaults | kwargs | bound` then preferred defaults over supplied keywords
    # (seen as a stale cache key).  Replace by a correct right-union.
    import crosshair.simplestructs as _ss2
    from collections.abc import Mapping as _Mapping

    def _map_ror(self, other):
        if not isinstance(other, _Mapping):
            raise TypeError
        out = self.copy()
        for k in list(out.keys()):
            del out[k]
        out.update(other)
        out.update(self)
        return out

    _ss2.MapBase.__ror__ = _map_ror

    # ---- S9: temporary names are concrete ---------------------------------
    # CrossHair models `random` symbolically, which makes tempfile's candidate names symbolic strings
    # (seen as minutes of z3 time and NotDeterministic errors when pipefunc falls back to
    # tempfile.mkdtemp()).  Temporary directory names are irrelevant to every property.
    import tempfile as _tempfile

    def _native(fn):
        def w(*a, **k):
            with NoTracing():
                return fn(*a, **k)

        return w

    for _n in ("mkdtemp", "mkstemp", "gettempdir"):
        _PATCH_REGISTRATIONS[getattr(_tempfile, _n)] = _native(getattr(_tempfile, _n))

    # ---- R7: weakref dereference without gc.collect() -------------------
    # CrossHair calls gc.collect() on every weakref dereference "to make weak references
    # deterministic"; PipeFunc._pipelines is a WeakSet that is iterated on every call, which made
    # gc 40% of the run time.  Every path rebuilds its pipeline objects, so no weak reference to an
    # object of an earlier path is ever consulted.
    import weakref as _weakref

    _PATCH_REGISTRATIONS.pop(_weakref.ref.__call__, None)

    # ---- R2: getclosurevars ---------------------------------------------
    import inspect as _inspect

    import crosshair.fnutil as _fnutil

    _orig_gcv = _fnutil.getclosurevars

    def _safe_gcv(fn):
        try:
            return _orig_gcv(fn)
        except ValueError:
            return _inspect.ClosureVars({}, getattr(fn, "__globals__", {}), {}, set())

    _fnutil.getclosurevars = _safe_gcv

    # ---- S5: time -------------------------------------------------------
    if "symtime" not in flags:
        import time as _t

        from crosshair.register_contract import REGISTERED_CONTRACTS

        for _fn in (
            _t.time,
            _t.time_ns,
            _t.monotonic,
            _t.monotonic_ns,
            _t.process_time,
            _t.process_time_ns,
            _t.perf_counter,
            _t.perf_counter_ns,
        ):
            REGISTERED_CONTRACTS.pop(_fn, None)
        _PATCH_REGISTRATIONS.pop(_t.sleep, None)
        ASSUMPTIONS.append("S5 real clock (durations are not symbolic)")
    else:
        ASSUMPTIONS.append("S5 symbolic clock: time.* return arbitrary non-decreasing instants")

    # ---- R3: short-circuiting -------------------------------------------
    _orig_csc = core.consider_shortcircuit

    def _csc(fn, sig, bound, subconditions, allow_interpretation):
        if allow_interpretation:
            return None  # never skip real code
        return _orig_csc(fn, sig, bound, subconditions, allow_interpretation)

    core.consider_shortcircuit = _csc

    # ---- S4: C boundaries -----------------------------------------------
    import json as _json

    _orig_json_dump = _json.dump
    _orig_json_load = _json.load

    def _json_dump_realizing(obj, fp, *a, **kw):
        obj = _deep_realize(obj)
        with NoTracing():  # native encoder (CrossHair's pure-Python jsonlib is ~100x slower)
            return _orig_json_dump(obj, fp, *a, **kw)

    def _json_load_native(fp, *a, **kw):
        with NoTracing():
            return _orig_json_load(fp, *a, **kw)

    _PATCH_REGISTRATIONS[_json.dump] = _json_dump_realizing
    _PATCH_REGISTRATIONS[_json.load] = _json_load_native
    import numpy as _np

    def _realizing(fn):
        def wrapper(*a, **kw):
            return fn(*_deep_realize(a), **_deep_realize(kw))

        wrapper.__wrapped__ = fn
        return wrapper

    for _n in ("unravel_index", "ravel_multi_index"):
        if not hasattr(getattr(_np, _n), "__wrapped_by_verif__"):
            w = _realizing(getattr(_np, _n))
            w.__wrapped_by_verif__ = True
            setattr(_np, _n, w)
    _orig_add_note = BaseException.add_note

    def _add_note_realizing(self, note):
        return _orig_add_note(self, _deep_realize(note))

    _PATCH_REGISTRATIONS[BaseException.add_note] = _add_note_realizing
    import pickle as _pickle

    _orig_pdumps = _pickle.dumps

    def _pdumps_realizing(obj, *a, **kw):
        return _orig_pdumps(_deep_realize(obj), *a, **kw)

    _PATCH_REGISTRATIONS[_pickle.dumps] = _pdumps_realizing
    ASSUMPTIONS.append(
        "S4 values are realised at json.dump, pickle.dumps, add_note, np.unravel_index, "
        "np.ravel_multi_index, numpy indexing (exhaustive case split inside the stated ranges)"
    )

    # ---- S8: hash stub (C15 only) ---------------------------------------
    if "hashstub" in flags:
        _orig_hash = _PATCH_REGISTRATIONS[hash]

        def _hash_stub(obj):
            with NoTracing():
                from crosshair.libimpl.builtinslib import AnySymbolicStr, SymbolicBool, SymbolicInt

                leaf = isinstance(obj, (SymbolicInt, SymbolicBool, AnySymbolicStr))
                is_tuple = type(obj) is tuple
            if leaf:
                return 0
            if is_tuple:
                for x in obj:
                    _hash_stub(x)
                return 0
            return _orig_hash(obj)

        _PATCH_REGISTRATIONS[hash] = _hash_stub
        ASSUMPTIONS.append("S8 builtin hash() of a symbolic leaf answered 0 without realisation")

    # ---- R4: range with numpy ints --------------------------------------
    import operator as _operator

    _orig_range = _PATCH_REGISTRATIONS[range]

    def _range_fixed(*a):
        with NoTracing():
            conv = tuple(
                _operator.index(x)
                if (not isinstance(x, (int, CrossHairValue)) and hasattr(x, "__index__"))
                else x
                for x in a
            )
        return _orig_range(*conv)

    _PATCH_REGISTRATIONS[range] = _range_fixed

    if "realfloat" in flags:
        # CrossHair forks per path between an IEEE bit-vector model and a real-number model of
        # `float`; the IEEE model does not close on division.  Force the real model.
        from crosshair.libimpl.builtinslib import ModelingDirector, RealBasedSymbolicFloat

        _orig_md_get = ModelingDirector.get

        def _md_get(self, typ):
            if typ is float:
                return RealBasedSymbolicFloat
            return _orig_md_get(self, typ)

        ModelingDirector.get = _md_get
        # CrossHair caps every path that creates a real-modelled float at UNKNOWN (it never
        # confirms under that approximation); the approximation is a stated assumption here.
        import crosshair.statespace as _ss

        _ss.StateSpace.cap_result_at_unknown = lambda self: None
        # finite floats only: no nan/inf forks per float argument
        core._SIMPLE_PROXIES[float] = lambda creator, *a: RealBasedSymbolicFloat(creator.varname, creator.pytype)
        ASSUMPTIONS.append("float arguments are modelled as finite reals (IEEE rounding, inf and nan are not modelled)")

    # ---- S3: pickle boundary (token table) ------------------------------
    if "tokpickle" in flags:
        install_token_pickle()

    ASSUMPTIONS.append(
        "R1-R6 CrossHair model repairs (functools.partial, getclosurevars, short-circuit off "
        "for interpreted code, range(np.int64), counterexample capture)"
    )
    ASSUMPTIONS.append("trusted: z3, CrossHair path-tree bookkeeping and builtin models; floats as reals")


TOK: dict = {}


def install_token_pickle():
    import cloudpickle

    def _snap(obj):
        """pickling takes a snapshot: containers are copied (later mutation of the original must not show
        through the stored value), leaves - possibly symbolic - are kept by reference"""
        import numpy as _np

        t = type(obj)
        if t is dict:
            return {k: _snap(v) for k, v in obj.items()}
        if t is list:
            return [_snap(v) for v in obj]
        if t is tuple:
            return tuple(_snap(v) for v in obj)
        if t is set:
            return set(obj)
        if isinstance(obj, _np.ndarray) and obj.dtype == object and not isinstance(obj, _np.ma.MaskedArray):
            out = _np.empty(obj.shape, dtype=object)
            for idx in _np.ndindex(obj.shape):
                out[idx] = _snap(obj[idx])
            return out
        return obj

    def _dump(obj, f, *a, **k):
        n = len(TOK)
        TOK[n] = _snap(obj)
        f.write(b"TOK%08d" % n)

    def _dumps(obj, *a, **k):
        n = len(TOK)
        TOK[n] = _snap(obj)
        return b"TOK%08d" % n

    def _loads(b, *a, **k):
        if len(b) != 11 or not bytes(b).startswith(b"TOK"):
            raise EOFError("torn")
        return TOK[int(b[3:])]

    def _load(f, *a, **k):
        return _loads(f.read())

    cloudpickle.dump = _dump
    cloudpickle.load = _load
    cloudpickle.loads = _loads
    cloudpickle.dumps = _dumps
    ASSUMPTIONS.append(
        "S3 cloudpickle replaced by a token table on a real tmpfs directory "
        "(assumes cloudpickle round-trips values; replays use the real cloudpickle)"
    )


def native_networkx():
    """S6b: run networkx graph-building methods natively.  Under the tracer `n not in self._node`
    with n = (node, attr_dict) does not raise TypeError (CrossHair's containment check does not
    hash), so Graph.add_nodes_from / copy() added the (node, dict) *tuples* as nodes - seen as a
    spurious AssertionError in Pipeline.topological_generations for pipelines with nullary functions.
    Graph nodes are concrete objects (PipeFunc, str, small ints); nothing symbolic enters."""
    import functools

    import networkx as nx
    from crosshair.tracers import NoTracing

    def wrap(cls, name):
        orig = getattr(cls, name)
        if getattr(orig, "__verif_native__", False):
            return

        @functools.wraps(orig)
        def w(*a, **k):
            with NoTracing():
                return orig(*a, **k)

        w.__verif_native__ = True
        setattr(cls, name, w)

    for cls in (nx.Graph, nx.DiGraph):
        for name in ("add_nodes_from", "add_edges_from", "copy", "add_node", "add_edge", "subgraph", "remove_node", "remove_nodes_from"):
            if name in cls.__dict__:
                wrap(cls, name)


def warm_networkx():
    native_networkx()
    """S6: compile networkx's lazily generated wrappers outside tracing."""
    import networkx as nx

    g = nx.DiGraph([(1, 2), (2, 3)])
    list(nx.topological_generations(g))
    list(nx.topological_sort(g))
    nx.descendants(g, 1)
    nx.ancestors(g, 2)
    nx.descendants_at_distance(g, 1, 1)
    nx.is_directed_acyclic_graph(g)
    list(nx.simple_cycles(g))
    list(nx.weakly_connected_components(g))
    list(nx.all_simple_paths(g, 1, 3))
    nx.has_path(g, 1, 3)
    list(nx.dfs_preorder_nodes(g, 1))
    try:
        nx.find_cycle(g)
    except nx.NetworkXNoCycle:
        pass
    g.subgraph([1, 2]).copy()

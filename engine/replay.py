"""Concrete replay of a counterexample in a clean interpreter.

No CrossHair tracing, no S2/S3/S4 stubs: real formatting, real cloudpickle.  Only S1
(zarr unimportable; with the installed zarr `import pipefunc` itself fails) stays.
Prints one JSON object: outcome = "true" | "false" | "raised", and a signature.
"""
from __future__ import annotations

import argparse
import importlib.util
import json
import os
import sys
import traceback


def main() -> int:
    ap = argparse.ArgumentParser()
    ap.add_argument("--gen", required=True)
    ap.add_argument("--fn", required=True)
    ap.add_argument("--args", required=True, help="JSON file with the argument dict")
    ap.add_argument("--out", required=True)
    a = ap.parse_args()
    os.environ.pop("VERIF_SYMBOLIC", None)
    sys.modules["zarr"] = None
    res: dict = {}
    try:
        spec = importlib.util.spec_from_file_location("verif_gen", a.gen)
        mod = importlib.util.module_from_spec(spec)
        sys.modules["verif_gen"] = mod
        spec.loader.exec_module(mod)
        with open(a.args) as f:
            args = json.load(f)
        fn = getattr(mod, a.fn)
        try:
            r = fn(**args)
            res["outcome"] = "true" if r else "false"
            why = getattr(mod.H, "WHY", None) or getattr(getattr(mod.H, "L", None), "WHY", None)
            res["signature"] = "false:" + (str(why[-1]) if why else "")
            if r:
                res["signature"] = "true"
        except BaseException as e:  # noqa: BLE001
            tb = traceback.extract_tb(e.__traceback__)
            where = ""
            for fr in tb:
                if fr.filename.startswith(os.environ.get("VERIF_REPO", "/repo") + "/pipefunc"):
                    where = fr.name
            res["outcome"] = "raised"
            res["signature"] = f"raise:{type(e).__name__}:{where}"
            res["detail"] = "".join(traceback.format_exception_only(type(e), e))[-500:]
            res["traceback"] = "".join(traceback.format_tb(e.__traceback__))[-2500:]
    except BaseException as e:  # noqa: BLE001
        res["outcome"] = "replay_error"
        res["detail"] = "".join(traceback.format_exception(type(e), e, e.__traceback__))[-2500:]
    with open(a.out, "w") as f:
        json.dump(res, f)
    return 0


if __name__ == "__main__":
    sys.exit(main())

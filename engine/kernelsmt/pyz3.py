"""Engine E2 (DESIGN 2.2): path-splitting symbolic interpreter of a small Python subset over z3 terms.

The function source is read from /repo at run time (ast + inspect); nothing about the kernels is
hard-coded except the *harness* (inputs, bounds, property).  Any construct outside the supported
subset raises Untranslatable, which the caller reports as inconclusive - never as a pass.
"""
from __future__ import annotations

import ast
import inspect
import textwrap
import time
from fractions import Fraction

import z3

try:  # Python 3.11+: re._parser
    import re._parser as sre_parse
    import re._constants as sre_c
except ImportError:  # pragma: no cover
    import sre_constants as sre_c
    import sre_parse


class Untranslatable(Exception):
    pass


def flatten_concat(t):
    if z3.is_app(t) and t.decl().kind() == z3.Z3_OP_SEQ_CONCAT:
        out = []
        for c in t.children():
            out.extend(flatten_concat(c))
        return out
    return [t]


class Raised(Exception):
    """A Python exception raised by the interpreted code on this path."""

    def __init__(self, exc_name, node=None):
        super().__init__(exc_name)
        self.exc_name = exc_name


class _Return(Exception):
    def __init__(self, value):
        self.value = value


class PathDone(Exception):
    pass


def is_sym(x):
    return isinstance(x, z3.ExprRef)


class Record:
    """Instance of an interpreted (data)class."""

    def __init__(self, cls, fields):
        self.cls = cls
        self.fields = dict(fields)

    def __repr__(self):
        return f"Record({self.cls.__name__}, {self.fields})"


class Match:
    def __init__(self, groups):
        self._groups = groups


class Pattern:
    def __init__(self, pattern):
        self.pattern = pattern


# ----------------------------------------------------------------------------------------------
# regex literal -> z3 regex (ASCII; anchors only at the ends)
# ----------------------------------------------------------------------------------------------
DIGIT = z3.Range("0", "9")


def _cat(items):
    items = [i for i in items if i is not None]
    if not items:
        return z3.Re("")
    if len(items) == 1:
        return items[0]
    return z3.Concat(*items)


def _tr_in(av):
    alts = []
    negate = False
    for op, a in av:
        if op is sre_c.NEGATE:
            negate = True
        elif op is sre_c.LITERAL:
            alts.append(z3.Re(chr(a)))
        elif op is sre_c.RANGE:
            alts.append(z3.Range(chr(a[0]), chr(a[1])))
        elif op is sre_c.CATEGORY and a is sre_c.CATEGORY_DIGIT:
            alts.append(DIGIT)
        else:
            raise Untranslatable(f"regex class item {op} {a}")
    r = alts[0] if len(alts) == 1 else z3.Union(*alts)
    if negate:
        raise Untranslatable("negated class")
    return r


def _tr_seq(seq, top=False):
    """returns (z3 regex, list of top-level items [(regex, is_capture_group)])"""
    items = []
    n = len(seq)
    for pos, (op, av) in enumerate(seq):
        if op is sre_c.AT:
            if av in (sre_c.AT_BEGINNING, sre_c.AT_BEGINNING_STRING) and pos == 0 and top:
                continue
            if av in (sre_c.AT_END, sre_c.AT_END_STRING) and pos == n - 1 and top:
                continue
            raise Untranslatable("anchor inside pattern")
        if op is sre_c.LITERAL:
            items.append((z3.Re(chr(av)), False))
        elif op is sre_c.IN:
            items.append((_tr_in(av), False))
        elif op is sre_c.MAX_REPEAT:
            lo, hi, sub = av
            r, _ = _tr_seq(sub)
            if hi is sre_c.MAXREPEAT:
                rr = z3.Star(r) if lo == 0 else (z3.Plus(r) if lo == 1 else z3.Concat(z3.Loop(r, lo, lo), z3.Star(r)))
            elif (lo, hi) == (0, 1):
                rr = z3.Option(r)
            else:
                rr = z3.Loop(r, lo, hi)
            items.append((rr, False))
        elif op is sre_c.SUBPATTERN:
            group, _, _, sub = av
            r, _ = _tr_seq(sub)
            items.append((r, group is not None))
        elif op is sre_c.BRANCH:
            _, branches = av
            items.append((z3.Union(*[_tr_seq(b)[0] for b in branches]), False))
        else:
            raise Untranslatable(f"regex op {op}")
    return _cat([r for r, _ in items]), items


def regex_to_z3(pattern: str):
    parsed = sre_parse.parse(pattern)
    seq = list(parsed)
    anchored_start = bool(seq) and seq[0][0] is sre_c.AT and seq[0][1] in (sre_c.AT_BEGINNING, sre_c.AT_BEGINNING_STRING)
    anchored_end = bool(seq) and seq[-1][0] is sre_c.AT and seq[-1][1] in (sre_c.AT_END, sre_c.AT_END_STRING)
    r, items = _tr_seq(seq, top=True)
    return r, items, anchored_start, anchored_end


# ----------------------------------------------------------------------------------------------
# interpreter
# ----------------------------------------------------------------------------------------------
class Engine:
    def __init__(self, globs, timeout_ms=30000):
        self.globs = globs
        self.solver = z3.Solver()
        self.solver.set("timeout", timeout_ms)
        self.queries = 0
        self.solver_s = 0.0
        self.functions = set()
        self._fresh = 0
        self.base = []  # constraints that hold on every path (bounds, input structure)
        self.memo = {}
        self.pieces = {}  # id of atomic string variable -> z3 regex it is constrained to (declared by the harness)

    def declare_piece(self, var, regex):
        self.pieces[var.get_id()] = regex
        self.base.append(z3.InRe(var, regex))

    def shape_regex(self, s):
        regs = []
        for a in flatten_concat(s):
            if z3.is_string_value(a):
                regs.append(z3.Re(a.as_string()))
            elif a.get_id() in self.pieces:
                regs.append(self.pieces[a.get_id()])
            else:
                return None
        return z3.Concat(*regs) if len(regs) > 1 else regs[0]

    def shape_vs(self, s, rx):
        """'in' / 'out' / 'both' / None: relation of the shape language of a structured string to rx"""
        shape = self.shape_regex(s)
        if shape is None:
            return None
        key = ("shape", s.get_id(), rx.get_id())
        if key in self.memo:
            return self.memo[key]
        x = z3.String("shape!x")
        def sat(*cs):
            sol = z3.Solver(); sol.set("timeout", 20000); sol.add(*cs)
            self.queries += 1
            t = time.perf_counter(); r = sol.check(); self.solver_s += time.perf_counter() - t
            return r
        a = sat(z3.InRe(x, shape), z3.Not(z3.InRe(x, rx)))   # some member outside rx?
        b = sat(z3.InRe(x, shape), z3.InRe(x, rx))           # some member inside rx?
        res = None
        if a == z3.unsat and b == z3.sat: res = "in"
        elif b == z3.unsat and a == z3.sat: res = "out"
        elif a == z3.sat and b == z3.sat: res = "both"
        self.memo[key] = res
        return res

    # -- solver helpers -------------------------------------------------------------------
    def check(self, *extra):
        t = time.perf_counter()
        self.solver.push()
        self.solver.add(*self.base, *self.pc, *extra)
        r = self.solver.check()
        model = self.solver.model() if r == z3.sat else None
        self.solver.pop()
        self.queries += 1
        self.solver_s += time.perf_counter() - t
        if r == z3.unknown:
            raise Untranslatable("solver unknown")
        return r == z3.sat, model

    def check_abstract(self, *extra):
        """Sound for 'unsat': replace str.to_int(t)/len(t) by opaque ints and drop every assertion that still
        mentions a string; fewer constraints => more models, so unsat here implies unsat of the full query."""
        t0 = time.perf_counter()
        cache = {}
        def has_string(e):
            if z3.is_string(e) or (z3.is_app(e) and e.sort().kind() in (z3.Z3_SEQ_SORT, z3.Z3_RE_SORT)):
                return True
            return any(has_string(c) for c in e.children())
        def absx(e):
            if z3.is_app(e) and e.decl().kind() in (z3.Z3_OP_STR_TO_INT, z3.Z3_OP_SEQ_LENGTH):
                k = e.get_id()
                if k not in cache:
                    cache[k] = z3.Int(f"abs!{len(cache)}")
                return cache[k]
            if not z3.is_app(e) or not e.children():
                return e
            ch = [absx(c) for c in e.children()]
            return e.decl()(*ch)
        sol = z3.Solver()
        sol.set("timeout", 20000)
        for a in [*self.base, *self.pc, *extra]:
            b = absx(a)
            if not has_string(b):
                sol.add(b)
        r = sol.check()
        self.queries += 1
        self.solver_s += time.perf_counter() - t0
        return r == z3.unsat

    def fresh(self, sort, hint="v"):
        self._fresh += 1
        return z3.Const(f"{hint}!{self._fresh}", sort)

    def assume(self, c):
        self.pc.append(c)

    def branch(self, cond):
        if not is_sym(cond):
            return bool(cond)
        cond = z3.simplify(cond)
        if z3.is_true(cond):
            return True
        if z3.is_false(cond):
            return False
        i = len(self.taken)
        if i < len(self.prefix):
            take = self.prefix[i]
        else:
            can_t, _ = self.check(cond)
            can_f, _ = self.check(z3.Not(cond))
            if can_t and can_f:
                take = True
                self.worklist.append(self.taken + [False])
            elif can_t:
                take = True
            elif can_f:
                take = False
            else:
                raise PathDone()
        self.taken.append(take)
        self.pc.append(cond if take else z3.Not(cond))
        return take

    # -- exploring all paths of a closure ---------------------------------------------------
    def explore(self, thunk):
        """thunk() runs interpreted code; returns list of (pc, outcome) with outcome = ('ok', v) | ('raise', name)"""
        self.worklist = [[]]
        results = []
        while self.worklist:
            self.prefix = self.worklist.pop()
            self.taken = []
            self.pc = []
            try:
                v = thunk()
                results.append((list(self.pc), ("ok", v)))
            except Raised as e:
                results.append((list(self.pc), ("raise", e.exc_name)))
            except PathDone:
                pass
        return results

    # -- functions ---------------------------------------------------------------------------
    def fn_ast(self, fn):
        fn = inspect.unwrap(fn)
        if isinstance(fn, (staticmethod, classmethod)):
            fn = fn.__func__
        src = textwrap.dedent(inspect.getsource(fn))
        node = ast.parse(src).body[0]
        self.functions.add(f"{fn.__module__}.{fn.__qualname__}")
        return node, fn

    def call_function(self, fn, args, kwargs):
        node, pyfn = self.fn_ast(fn)
        env = {}
        params = [a.arg for a in node.args.args]
        defaults = node.args.defaults
        for name, d in zip(params[len(params) - len(defaults):], defaults):
            env[name] = self.eval(d, {}, pyfn)
        for name, a in zip(params, args):
            env[name] = a
        if node.args.kwarg is not None:
            env[node.args.kwarg.arg] = {k: v for k, v in kwargs.items() if k not in params}
        for k, v in kwargs.items():
            if k in params:
                env[k] = v
        missing = [p for p in params if p not in env]
        if missing:
            raise Untranslatable(f"missing args {missing} for {pyfn.__qualname__}")
        try:
            self.exec_block(node.body, env, pyfn)
        except _Return as r:
            return r.value
        return None

    def construct(self, cls, kwargs):
        import dataclasses

        if not dataclasses.is_dataclass(cls):
            raise Untranslatable(f"constructor of {cls}")
        fields = {}
        for f in dataclasses.fields(cls):
            if f.name in kwargs:
                fields[f.name] = kwargs[f.name]
            elif f.default is not dataclasses.MISSING:
                fields[f.name] = f.default
            elif f.default_factory is not dataclasses.MISSING:
                fields[f.name] = f.default_factory()
            else:
                raise Raised("TypeError")
        extra = set(kwargs) - {f.name for f in dataclasses.fields(cls)}
        if extra:
            raise Raised("TypeError")
        rec = Record(cls, fields)
        if hasattr(cls, "__post_init__"):
            self.call_function(cls.__post_init__, [rec], {})
        return rec

    # -- statements --------------------------------------------------------------------------
    def exec_block(self, body, env, fn):
        for st in body:
            self.exec(st, env, fn)

    def exec(self, st, env, fn):
        if isinstance(st, ast.Expr):
            if isinstance(st.value, ast.Constant):
                return  # docstring
            self.eval(st.value, env, fn)
        elif isinstance(st, ast.Assign):
            v = self.eval(st.value, env, fn)
            for t in st.targets:
                self.assign(t, v, env, fn)
        elif isinstance(st, ast.AnnAssign):
            if st.value is not None:
                self.assign(st.target, self.eval(st.value, env, fn), env, fn)
        elif isinstance(st, ast.AugAssign):
            cur = self.eval(st.target, env, fn)
            v = self.binop(st.op, cur, self.eval(st.value, env, fn))
            self.assign(st.target, v, env, fn)
        elif isinstance(st, ast.If):
            if self.branch(self.truth(self.eval(st.test, env, fn))):
                self.exec_block(st.body, env, fn)
            else:
                self.exec_block(st.orelse, env, fn)
        elif isinstance(st, ast.For):
            it = self.eval(st.iter, env, fn)
            if is_sym(it):
                raise Untranslatable("loop over symbolic iterable")
            for x in list(it):
                self.assign(st.target, x, env, fn)
                self.exec_block(st.body, env, fn)
        elif isinstance(st, ast.Return):
            raise _Return(self.eval(st.value, env, fn) if st.value is not None else None)
        elif isinstance(st, ast.Raise):
            name = "Exception"
            exc = st.exc
            if isinstance(exc, ast.Call):
                exc = exc.func
            if isinstance(exc, ast.Name):
                name = exc.id
            raise Raised(name)
        elif isinstance(st, ast.Try):
            try:
                self.exec_block(st.body, env, fn)
            except Raised as e:
                for h in st.handlers:
                    names = []
                    if h.type is None:
                        names = None
                    elif isinstance(h.type, ast.Name):
                        names = [h.type.id]
                    elif isinstance(h.type, ast.Tuple):
                        names = [x.id for x in h.type.elts]
                    if names is None or e.exc_name in names or "Exception" in names:
                        self.exec_block(h.body, env, fn)
                        break
                else:
                    raise
            else:
                self.exec_block(st.orelse, env, fn)
            finally:
                pass
            self.exec_block(st.finalbody, env, fn)
        elif isinstance(st, ast.Assert):
            if not self.branch(self.truth(self.eval(st.test, env, fn))):
                raise Raised("AssertionError")
        elif isinstance(st, ast.Pass):
            pass
        else:
            raise Untranslatable(f"statement {type(st).__name__}")

    def assign(self, target, v, env, fn):
        if isinstance(target, ast.Name):
            env[target.id] = v
        elif isinstance(target, ast.Subscript):
            obj = self.eval(target.value, env, fn)
            key = self.eval(target.slice, env, fn)
            if is_sym(key):
                raise Untranslatable("store with symbolic key")
            obj[key] = v
        elif isinstance(target, (ast.Tuple, ast.List)):
            vals = list(v)
            if len(vals) != len(target.elts):
                raise Raised("ValueError")
            for t, x in zip(target.elts, vals):
                self.assign(t, x, env, fn)
        else:
            raise Untranslatable(f"assign target {type(target).__name__}")

    # -- expressions -------------------------------------------------------------------------
    def truth(self, v):
        if is_sym(v):
            if z3.is_bool(v):
                return v
            if z3.is_int(v) or z3.is_real(v):
                return v != 0
            if z3.is_string(v):
                return z3.Length(v) > 0
            raise Untranslatable("truth of symbolic value")
        if isinstance(v, Match):
            return True
        return bool(v)

    def binop(self, op, a, b):
        if isinstance(op, ast.Add):
            if is_sym(a) and z3.is_string(a) or is_sym(b) and z3.is_string(b):
                return z3.Concat(self.to_z3str(a), self.to_z3str(b))
            return a + b
        if isinstance(op, ast.Sub):
            return a - b
        if isinstance(op, ast.Mult):
            return self.num(a) * self.num(b) if (is_sym(a) or is_sym(b)) else a * b
        if isinstance(op, ast.Div):
            if is_sym(b):
                if self.branch(b == 0):
                    raise Raised("ZeroDivisionError")
                return z3.ToReal(a) / z3.ToReal(b) if False else self.real(a) / self.real(b)
            if b == 0:
                raise Raised("ZeroDivisionError")
            return self.real(a) / self.real(b) if is_sym(a) else a / b
        raise Untranslatable(f"binop {type(op).__name__}")

    def real(self, x):
        if is_sym(x):
            return z3.ToReal(x) if z3.is_int(x) else x
        fr = Fraction(str(x)) if isinstance(x, float) else Fraction(x)
        return z3.Q(fr.numerator, fr.denominator)

    def num(self, x):
        if is_sym(x):
            return x
        if isinstance(x, float):
            return self.real(x)
        return x

    def to_z3str(self, x):
        return x if is_sym(x) else z3.StringVal(x)

    def compare(self, op, a, b):
        if isinstance(op, (ast.Is, ast.IsNot)):
            r = (a is b) if not (is_sym(a) or is_sym(b)) else False  # symbolic values are never None
            return r if isinstance(op, ast.Is) else not r
        if isinstance(op, (ast.In, ast.NotIn)):
            if is_sym(b):
                raise Untranslatable("in symbolic container")
            if is_sym(a):
                keys = list(b)
                r = z3.Or([a == self.lift(k, a) for k in keys]) if keys else z3.BoolVal(False)
            else:
                r = a in b
            return r if isinstance(op, ast.In) else (z3.Not(r) if is_sym(r) else not r)
        if is_sym(a) or is_sym(b):
            if (is_sym(a) and z3.is_string(a)) or (is_sym(b) and z3.is_string(b)):
                a, b = self.to_z3str(a), self.to_z3str(b)
            elif isinstance(a, float) or isinstance(b, float) or (is_sym(a) and z3.is_real(a)) or (is_sym(b) and z3.is_real(b)):
                a, b = self.real(a), self.real(b)
        if isinstance(op, ast.Eq):
            return a == b
        if isinstance(op, ast.NotEq):
            return a != b
        if isinstance(op, ast.Lt):
            return a < b
        if isinstance(op, ast.LtE):
            return a <= b
        if isinstance(op, ast.Gt):
            return a > b
        if isinstance(op, ast.GtE):
            return a >= b
        raise Untranslatable(f"compare {type(op).__name__}")

    def lift(self, k, like):
        if z3.is_string(like):
            return z3.StringVal(k)
        return k

    def eval(self, e, env, fn):
        if isinstance(e, ast.Constant):
            return e.value
        if isinstance(e, ast.Name):
            if e.id in env:
                return env[e.id]
            g = getattr(fn, "__globals__", self.globs)
            if e.id in g:
                return g[e.id]
            import builtins

            if hasattr(builtins, e.id):
                return getattr(builtins, e.id)
            raise Untranslatable(f"name {e.id}")
        if isinstance(e, ast.Attribute):
            obj = self.eval(e.value, env, fn)
            if isinstance(obj, Record):
                if e.attr in obj.fields:
                    return obj.fields[e.attr]
                return ("bound", inspect.getattr_static(obj.cls, e.attr), obj)
            if is_sym(obj) or isinstance(obj, (Match, Pattern)):
                return ("method", obj, e.attr)
            if inspect.isclass(obj):
                return inspect.getattr_static(obj, e.attr) if hasattr(obj, e.attr) else getattr(obj, e.attr)
            if isinstance(obj, (dict, list, tuple, str)):
                return ("method", obj, e.attr)
            return getattr(obj, e.attr)
        if isinstance(e, ast.JoinedStr):
            return "<formatted>"
        if isinstance(e, ast.Tuple):
            return tuple(self.eval(x, env, fn) for x in e.elts)
        if isinstance(e, ast.List):
            return [self.eval(x, env, fn) for x in e.elts]
        if isinstance(e, ast.Dict):
            return {self.eval(k, env, fn): self.eval(v, env, fn) for k, v in zip(e.keys, e.values)}
        if isinstance(e, ast.IfExp):
            return self.eval(e.body, env, fn) if self.branch(self.truth(self.eval(e.test, env, fn))) else self.eval(e.orelse, env, fn)
        if isinstance(e, ast.BoolOp):
            if isinstance(e.op, ast.And):
                v = True
                for x in e.values:
                    v = self.eval(x, env, fn)
                    if not self.branch(self.truth(v)):
                        return v if not is_sym(v) else False
                return v if not is_sym(v) else True
            v = False
            for x in e.values:
                v = self.eval(x, env, fn)
                if self.branch(self.truth(v)):
                    return v if not is_sym(v) else True
            return v if not is_sym(v) else False
        if isinstance(e, ast.UnaryOp):
            v = self.eval(e.operand, env, fn)
            if isinstance(e.op, ast.Not):
                t = self.truth(v)
                return z3.Not(t) if is_sym(t) else (not t)
            if isinstance(e.op, ast.USub):
                return -v
            raise Untranslatable("unary op")
        if isinstance(e, ast.BinOp):
            return self.binop(e.op, self.eval(e.left, env, fn), self.eval(e.right, env, fn))
        if isinstance(e, ast.Compare):
            left = self.eval(e.left, env, fn)
            res = True
            for op, right_e in zip(e.ops, e.comparators):
                right = self.eval(right_e, env, fn)
                c = self.compare(op, left, right)
                if len(e.ops) == 1:
                    return c
                if not self.branch(self.truth(c)):
                    return False
                left = right
            return res
        if isinstance(e, ast.Subscript):
            obj = self.eval(e.value, env, fn)
            key = self.eval(e.slice, env, fn)
            if is_sym(key):
                if isinstance(obj, dict):
                    keys = list(obj)
                    if not self.branch(z3.Or([key == self.lift(k, key) for k in keys])):
                        raise Raised("KeyError")
                    vals = [self.num(obj[k]) for k in keys]
                    out = vals[-1]
                    for k, v in zip(reversed(keys[:-1]), reversed(vals[:-1])):
                        out = z3.If(key == self.lift(k, key), v, out)
                    return out
                raise Untranslatable("symbolic subscript")
            try:
                return obj[key]
            except KeyError:
                raise Raised("KeyError")
            except IndexError:
                raise Raised("IndexError")
        if isinstance(e, ast.Call):
            return self.call(e, env, fn)
        if isinstance(e, (ast.GeneratorExp, ast.ListComp)):
            return self.comp(e, env, fn, lambda acc, env2: acc.append(self.eval(e.elt, env2, fn)), [])
        if isinstance(e, ast.DictComp):
            def add(acc, env2):
                acc[self.eval(e.key, env2, fn)] = self.eval(e.value, env2, fn)
            return self.comp(e, env, fn, add, {})
        raise Untranslatable(f"expression {type(e).__name__}")

    def comp(self, e, env, fn, add, acc):
        def rec(gens, env2):
            if not gens:
                add(acc, env2)
                return
            g = gens[0]
            it = self.eval(g.iter, env2, fn)
            if is_sym(it):
                raise Untranslatable("comprehension over symbolic iterable")
            for x in list(it):
                env3 = dict(env2)
                self.assign(g.target, x, env3, fn)
                if all(self.branch(self.truth(self.eval(c, env3, fn))) for c in g.ifs):
                    rec(gens[1:], env3)
        rec(e.generators, dict(env))
        return acc

    def call(self, e, env, fn):
        f = self.eval(e.func, env, fn)
        args = []
        for a in e.args:
            if isinstance(a, ast.Starred):
                args.extend(self.eval(a.value, env, fn))
            else:
                args.append(self.eval(a, env, fn))
        kwargs = {}
        for k in e.keywords:
            if k.arg is None:
                kwargs.update(self.eval(k.value, env, fn))
            else:
                kwargs[k.arg] = self.eval(k.value, env, fn)
        return self.apply(f, args, kwargs)

    def apply(self, f, args, kwargs):
        import builtins
        import re as _re

        if isinstance(f, tuple) and f and f[0] == "bound":
            _, attr, rec = f
            if isinstance(attr, staticmethod):
                return self.call_function(attr.__func__, args, kwargs)
            return self.call_function(attr, [rec, *args], kwargs)
        if isinstance(f, tuple) and f and f[0] == "method":
            return self.method(f[1], f[2], args, kwargs)
        if isinstance(f, staticmethod):
            return self.call_function(f.__func__, args, kwargs)
        if f is builtins.isinstance:
            v, t = args
            if is_sym(v):
                kinds = t if isinstance(t, tuple) else (t,)
                return any((k is str and z3.is_string(v)) or (k is int and z3.is_int(v)) or (k is float and z3.is_real(v)) or (k is bool and z3.is_bool(v)) for k in kinds)
            return isinstance(v, t)
        if f is builtins.max or f is builtins.min:
            vals = list(args[0]) if len(args) == 1 else list(args)
            if kwargs:
                if set(kwargs) != {"key"}:
                    raise Untranslatable("max/min with default")
                keyf = kwargs["key"]
                out, kout = vals[0], self.apply(keyf, [vals[0]], {})
                for v in vals[1:]:
                    kv = self.apply(keyf, [v], {})
                    c = self.compare(ast.Gt() if f is builtins.max else ast.Lt(), kv, kout)
                    if self.branch(self.truth(c)):  # fork: keeps the chosen value structured
                        out, kout = v, kv
                return out
            out = vals[0]
            for v in vals[1:]:
                if is_sym(v) or is_sym(out):
                    c = self.compare(ast.Gt() if f is builtins.max else ast.Lt(), v, out)
                    is_str = (is_sym(v) and z3.is_string(v)) or isinstance(v, str)
                    if is_str:
                        # keep strings structured: fork instead of building an ite-string
                        if self.branch(c):
                            out = v
                    else:
                        out = z3.If(c, v, out)
                else:
                    out = f(out, v)
            return out
        if f is builtins.float:
            return self.str_to_real(args[0]) if is_sym(args[0]) and z3.is_string(args[0]) else (self.real(args[0]) if is_sym(args[0]) else float(args[0]))
        if f is builtins.int:
            a0 = args[0]
            if is_sym(a0) and z3.is_string(a0):
                if self.check(z3.Not(z3.InRe(a0, z3.Plus(DIGIT))))[0]:
                    if self.branch(z3.Not(z3.InRe(a0, z3.Plus(DIGIT)))):
                        raise Raised("ValueError")
                return z3.StrToInt(a0)
            if is_sym(a0):
                raise Untranslatable("int() of a symbolic non-string")
            return int(a0)
        if f is builtins.round:
            x = args[0]
            nd = args[1] if len(args) > 1 else kwargs.get("ndigits", 0)
            if is_sym(nd):
                raise Untranslatable("round with symbolic ndigits")
            if not is_sym(x):
                return round(x, nd) if len(args) > 1 or kwargs else round(x)
            # round-half-up on non-negative reals (Python rounds exact ties to even; a counterexample that
            # depends on an exact tie does not replay and is reported as inconclusive, never as a violation)
            scale = 10 ** (nd or 0)
            q = self.real(x) * scale
            r = z3.ToInt(q + z3.Q(1, 2))
            return z3.ToReal(r) / scale if (len(args) > 1 or kwargs) else r
        if f is builtins.reversed:
            return list(reversed(list(args[0])))
        if f is builtins.bool:
            return self.truth(args[0])
        if f is builtins.len:
            return z3.Length(args[0]) if is_sym(args[0]) else len(args[0])
        if f is builtins.sum:
            tot = args[1] if len(args) > 1 else 0
            for v in args[0]:
                tot = tot + v
            return tot
        if f in (builtins.list, builtins.tuple, builtins.dict, builtins.set, builtins.sorted, builtins.zip, builtins.enumerate, builtins.range):
            return f(*args, **kwargs)
        if f is _re.match:
            return self.re_match(args[0], args[1])
        if f is _re.compile:
            return Pattern(args[0])
        if inspect.isclass(f):
            import dataclasses
            if dataclasses.is_dataclass(f):
                if args:
                    names = [x.name for x in dataclasses.fields(f)]
                    kwargs = {**dict(zip(names, args)), **kwargs}
                return self.construct(f, kwargs)
            raise Untranslatable(f"constructor {f}")
        if inspect.isfunction(f):
            if f.__module__.startswith("pipefunc"):
                return self.call_function(f, args, kwargs)
        raise Untranslatable(f"call of {f!r}")

    def method(self, obj, name, args, kwargs):
        if isinstance(obj, Pattern) and name == "match":
            return self.re_match(obj.pattern, args[0])
        if isinstance(obj, Match) and name == "groups":
            return tuple(obj._groups)
        if is_sym(obj) and z3.is_string(obj):
            if name == "split" and len(args) == 1 and isinstance(args[0], str) and not kwargs:
                return self.split_structured(obj, args[0])
            if name == "upper":
                # bound: inputs contain no lower-case ASCII letters, so upper() is the identity
                self.assume(z3.Not(z3.InRe(obj, z3.Concat(z3.Full(z3.ReSort(z3.StringSort())), z3.Range("a", "z"), z3.Full(z3.ReSort(z3.StringSort()))))))
                return obj
            raise Untranslatable(f"str method {name}")
        if isinstance(obj, dict):
            if name in ("items", "keys", "values", "get", "copy"):
                return getattr(obj, name)(*args, **kwargs)
        if isinstance(obj, str) and name in ("upper", "lower", "strip", "split", "startswith", "endswith"):
            return getattr(obj, name)(*args, **kwargs)
        raise Untranslatable(f"method {name} on {type(obj).__name__}")

    def split_structured(self, s, sep):
        """s.split(sep) for a concatenation of pieces and literal separators; every non-literal
        piece must be unable to contain `sep` (validity query), otherwise untranslatable."""
        groups, cur = [], []
        any_re = z3.Full(z3.ReSort(z3.StringSort()))
        for a in flatten_concat(s):
            if z3.is_string_value(a):
                lit = a.as_string()
                parts = lit.split(sep)
                for n, part in enumerate(parts):
                    if n:
                        groups.append(cur)
                        cur = []
                    if part:
                        cur.append(z3.StringVal(part))
            else:
                if self.check(z3.InRe(a, z3.Concat(any_re, z3.Re(sep), any_re)))[0]:
                    raise Untranslatable("split: a symbolic piece may contain the separator")
                cur.append(a)
        groups.append(cur)
        out = []
        for g in groups:
            if not g:
                out.append("")
            elif len(g) == 1:
                out.append(g[0] if not z3.is_string_value(g[0]) else g[0].as_string())
            else:
                out.append(z3.Concat(*g))
        return out

    # -- string kernels ---------------------------------------------------------------------
    def re_match(self, pattern, s):
        if is_sym(pattern):
            raise Untranslatable("symbolic pattern")
        if not is_sym(s):
            import re as _re
            m = _re.match(pattern, s)
            return Match(m.groups()) if m else None
        r, items, a0, a1 = regex_to_z3(pattern)
        if not a0:
            raise Untranslatable("unanchored start")
        full = r if a1 else z3.Concat(r, z3.Full(z3.ReSort(z3.StringSort())))
        rel = self.shape_vs(s, full)
        if rel == "out":
            return None
        if rel != "in" and not self.branch(z3.InRe(s, full)):
            return None
        groups = []
        if any(cap for _, cap in items):
            self._check_unique(pattern, items)
            chunks = self._align(flatten_concat(s), [rr for rr, _ in items])
            if chunks is not None:
                return Match([c for c, (_, cap) in zip(chunks, items) if cap])
            key = ("match", pattern, s.get_id())
            if key not in self.memo:
                self.memo[key] = [self.fresh(z3.StringSort(), "grp") for _ in items]
            parts = self.memo[key]
            for (rr, cap), g in zip(items, parts):
                self.assume(z3.InRe(g, rr))
                if cap:
                    groups.append(g)
            self.assume(s == (z3.Concat(*parts) if len(parts) > 1 else parts[0]))
            # side condition: the decomposition is unique (checked once per pattern)
            self._check_unique(pattern, items)
        return Match(groups)

    def _align(self, args, regs):
        """split the concat arguments into len(regs) consecutive chunks, chunk_i valid-in regs[i] under pc"""
        def cat(xs):
            xs = list(xs)
            if not xs:
                return z3.StringVal("")
            return z3.Concat(*xs) if len(xs) > 1 else xs[0]
        def valid(chunk, rr):
            sat, _ = self.check(z3.Not(z3.InRe(cat(chunk), rr)))
            return not sat
        def rec(i, start):
            if i == len(regs) - 1:
                return [cat(args[start:])] if valid(args[start:], regs[i]) else None
            for end in range(start, len(args) + 1):
                if valid(args[start:end], regs[i]):
                    rest = rec(i + 1, end)
                    if rest is not None:
                        return [cat(args[start:end])] + rest
            return None
        return rec(0, 0)

    _unique_ok = {}

    def _check_unique(self, pattern, items):
        if pattern in self._unique_ok:
            return
        s1 = [self.fresh(z3.StringSort(), "u") for _ in items]
        s2 = [self.fresh(z3.StringSort(), "w") for _ in items]
        sol = z3.Solver()
        sol.set("timeout", 20000)
        for (rr, _), a, b in zip(items, s1, s2):
            sol.add(z3.InRe(a, rr), z3.InRe(b, rr), z3.Length(a) <= 8, z3.Length(b) <= 8)
        cat = lambda xs: z3.Concat(*xs) if len(xs) > 1 else xs[0]
        sol.add(cat(s1) == cat(s2), z3.Or([a != b for a, b in zip(s1, s2)]))
        r = sol.check()
        self.queries += 1
        if r != z3.unsat:
            raise Untranslatable(f"ambiguous group decomposition for {pattern!r}: {r}")
        self._unique_ok[pattern] = True

    def str_to_real(self, s, int_digits=4, frac_digits=2):
        args = flatten_concat(s)
        digits_only = lambda t: not self.check(z3.Not(z3.InRe(t, z3.Plus(DIGIT))))[0]
        if len(args) == 1 and digits_only(args[0]):
            return z3.ToReal(z3.StrToInt(args[0]))
        if len(args) == 3 and z3.is_string_value(args[1]) and args[1].as_string() == "." and digits_only(args[0]) and digits_only(args[2]):
            fp = args[2]
            frac = z3.RealVal(0)
            for n in range(1, frac_digits + 1):
                frac = z3.If(z3.Length(fp) == n, z3.ToReal(z3.StrToInt(fp)) / (10 ** n), frac)
            self.assume(z3.Length(fp) <= frac_digits)
            return z3.ToReal(z3.StrToInt(args[0])) + frac
        key = ("float", s.get_id())
        if key not in self.memo:
            self.memo[key] = (self.fresh(z3.StringSort(), "ip"), self.fresh(z3.StringSort(), "fp"), self.fresh(z3.BoolSort(), "hasf"))
        ip, fp, hasf = self.memo[key]
        self.assume(z3.InRe(ip, z3.Loop(DIGIT, 1, int_digits)))
        self.assume(z3.InRe(fp, z3.Loop(DIGIT, 1, frac_digits)))
        self.assume(s == z3.If(hasf, z3.Concat(ip, z3.StringVal("."), fp), ip))
        frac = z3.RealVal(0)
        for n in range(1, frac_digits + 1):
            frac = z3.If(z3.Length(fp) == n, z3.ToReal(z3.StrToInt(fp)) / (10 ** n), frac)
        return z3.ToReal(z3.StrToInt(ip)) + z3.If(hasf, frac, z3.RealVal(0))

"""Run one obligation (and its reachability twin) under CrossHair; emit a JSON result.

usage: python -m engine.worker --gen <file.py> --fn <name> --timeout <s> --out <json>
                               [--flags a,b] [--twin-timeout s] [--canary name] [--no-twin]
"""
from __future__ import annotations

import argparse
import importlib.util
import json
import os
import sys
import time
import traceback


def _jsonable(v):
    if isinstance(v, (bool, int, str)) or v is None:
        return v
    if isinstance(v, float):
        return v
    if isinstance(v, (list, tuple)):
        return [_jsonable(x) for x in v]
    if isinstance(v, dict):
        return {str(k): _jsonable(x) for k, x in v.items()}
    return {"__repr__": repr(v)}


def main() -> int:  # noqa: C901, PLR0915
    ap = argparse.ArgumentParser()
    ap.add_argument("--gen", required=True)
    ap.add_argument("--fn", required=True)
    ap.add_argument("--timeout", type=float, required=True)
    ap.add_argument("--twin-timeout", type=float, default=40.0)
    ap.add_argument("--flags", default="")
    ap.add_argument("--canary", default="")
    ap.add_argument("--no-twin", action="store_true")
    ap.add_argument("--e2", action="store_true")
    ap.add_argument("--out", required=True)
    a = ap.parse_args()
    flags = [f for f in a.flags.split(",") if f]
    os.environ["VERIF_SYMBOLIC"] = "1"
    os.environ["VERIF_FLAGS"] = ",".join(flags)
    t_start = time.time()
    result = {"fn": a.fn, "flags": flags, "canary": a.canary or None}
    if a.e2:
        try:
            sys.modules["zarr"] = None
            spec = importlib.util.spec_from_file_location("verif_gen", a.gen)
            mod = importlib.util.module_from_spec(spec)
            sys.modules["verif_gen"] = mod
            spec.loader.exec_module(mod)
            r = getattr(mod, a.fn)()
            st = {"CONFIRMED": "CONFIRMED", "REFUTED": "POST_FAIL"}.get(r["state"], "CANNOT_CONFIRM")
            result["main"] = {
                "state": st, "message": r.get("message", ""), "traceback": "", "ce": r.get("ce") if st == "POST_FAIL" else None,
                "paths": r.get("paths", 0), "z3_calls": r.get("z3_calls", 0), "z3_s": r.get("z3_s", 0.0), "wall_s": r.get("wall_s", 0.0),
            }  # fmt: skip
            result["functions_encoded"] = r.get("functions_encoded", [])
            result["assumptions"] = [
                "E2: AST interpreter over z3 strings/ints/reals (engine/kernelsmt/pyz3.py); floats as reals; regex literals translated to z3 regexes; "
                "translator validated on the literal inputs of the repository's own tests before every obligation"
            ]
        except BaseException as e:  # noqa: BLE001
            result["error"] = "".join(traceback.format_exception(type(e), e, e.__traceback__))[-3000:]
        result["wall_s"] = round(time.time() - t_start, 2)
        with open(a.out, "w") as f:
            json.dump(result, f)
        return 0
    try:
        from engine import shims

        shims.install(flags)
        from crosshair.core_and_libs import AnalysisKind, analyze_function, run_checkables
        from crosshair.options import AnalysisOptionSet

        spec = importlib.util.spec_from_file_location("verif_gen", a.gen)
        mod = importlib.util.module_from_spec(spec)
        sys.modules["verif_gen"] = mod
        spec.loader.exec_module(mod)
        shims.warm_networkx()
        if a.canary:
            mod.H.CANARIES[a.canary]()

        def run(fn, timeout):
            shims.LAST_CE.clear()
            c0 = dict(shims.COUNTERS)
            t0 = time.time()
            opts = AnalysisOptionSet(
                analysis_kind=[AnalysisKind.PEP316],
                per_condition_timeout=timeout,
                per_path_timeout=timeout,
                report_all=True,
            )
            msgs = []
            for ms in run_checkables(analyze_function(fn, opts)):
                for m in ms if isinstance(ms, list) else [ms]:
                    msgs.append(m)
            states = [m.state.name for m in msgs]
            order = ["SYNTAX_ERR", "IMPORT_ERR", "EXEC_ERR", "POST_ERR", "POST_FAIL", "PRE_UNSAT", "CANNOT_CONFIRM", "CONFIRMED"]
            state = next((s for s in order if s in states), "NO_MESSAGE")
            pick = next((m for m in msgs if m.state.name == state), None)
            return {
                "state": state,
                "message": (pick.message[:600] if pick else ""),
                "traceback": (getattr(pick, "traceback", "") or "")[-1500:] if pick else "",
                "ce": _jsonable(dict(shims.LAST_CE)) if state in ("EXEC_ERR", "POST_FAIL", "POST_ERR") else None,
                "paths": shims.COUNTERS["paths"] - c0["paths"],
                "z3_calls": shims.COUNTERS["z3_calls"] - c0["z3_calls"],
                "z3_s": round(shims.COUNTERS["z3_s"] - c0["z3_s"], 3),
                "wall_s": round(time.time() - t0, 2),
            }

        fn = getattr(mod, a.fn)
        result["main"] = run(fn, a.timeout)
        if not a.no_twin and not a.canary:
            result["twin"] = run(getattr(mod, a.fn + "__twin"), a.twin_timeout)
            ce = result["twin"].get("ce")
            if ce and "__error__" not in ce:
                # concrete run under a profiler: which /repo functions the obligation executes
                seen = set()
                _REPO = os.environ.get("VERIF_REPO", "/repo")

                def prof(frame, event, arg):
                    if event == "call":
                        fnm = frame.f_code.co_filename
                        if fnm.startswith(_REPO + "/pipefunc"):
                            seen.add(fnm[len(_REPO) + 1 :] + ":" + frame.f_code.co_qualname)

                try:
                    sys.setprofile(prof)
                    try:
                        fn(**ce)
                    finally:
                        sys.setprofile(None)
                except BaseException as e:  # noqa: BLE001
                    result["profile_error"] = repr(e)[:200]
                result["functions_encoded"] = sorted(seen)
        result["assumptions"] = list(shims.ASSUMPTIONS)
    except BaseException as e:  # noqa: BLE001
        result["error"] = "".join(traceback.format_exception(type(e), e, e.__traceback__))[-3000:]
    result["wall_s"] = round(time.time() - t_start, 2)
    with open(a.out, "w") as f:
        json.dump(result, f)
    return 0


if __name__ == "__main__":
    sys.exit(main())

"""C09 - caching never changes what a pipeline returns."""
from __future__ import annotations

from engine.ob import Ob
from harness import lib as L
from harness import runt, tmpl
from harness.lib import NoTracing, fail
from harness.runt import R
from harness.tmpl import T

WHY = L.WHY
OUTSIDE = "shared (manager-backed) caches, parallel shared-cache maps, lazy=True with caches, histories longer than 3 calls"
ASSUMPTIONS = ["argument values are hashed by the caches and therefore restricted to 0..2 (equal and unequal repeats are both reachable)"]

I, Bo = "int", "bool"


SMALL = {"lru1": ("lru", 1), "hybrid1": ("hybrid", 1), "hybrid2": ("hybrid", 2)}  # caches that overflow within one call


def _cache_kwargs(cache_type):
    if cache_type in SMALL:
        return {"shared": False, "max_size": SMALL[cache_type][1]}
    if cache_type == "lru":
        return {"shared": False, "max_size": 64}
    if cache_type == "hybrid":
        return {"shared": False, "max_size": 64}
    if cache_type == "disk":
        return {"cache_dir": L.scratch_dir(), "lru_shared": False}
    return None


def _twins(t, cache_type, mask):
    names = [fs.name for fs in t]
    cached = {nm for k, nm in enumerate(names) if (mask >> k) & 1}
    log_c, log_u = [], []
    pc = runt.make(t, log_c, cache=lambda nm: nm in cached, cache_type=SMALL.get(cache_type, (cache_type,))[0], cache_kwargs=_cache_kwargs(cache_type))
    pu = runt.make(t, log_u)
    return pc, pu, log_c, log_u, cached


def _call(p, out, kw, full):
    try:
        if full:
            return "ok", p.run(out, full_output=True, kwargs=dict(kw))
        return "ok", p(out, **kw)
    except Exception as e:  # noqa: BLE001
        return "raise", type(e).__name__


def _mutate(p, t, mut, newval):
    """apply the same mutation to a pipeline: 1 = update_defaults, 2 = update_bound, 3 = replace a function"""
    if mut == 1:
        for fs in t:
            for prm in fs.defaults:
                if prm not in fs.bound:
                    p.update_defaults({prm: newval})
                    return True
    if mut == 2:
        for fs in t:
            for prm in fs.bound:
                f = next(f for f in p.functions if f.__name__ == fs.name)
                f.update_bound({prm: newval})
                return True
    if mut == 3:
        fs = t[0]
        log = []
        newf = runt.make_functions([fs], log, coeff_shift=7)[0]
        newf.cache = next(f for f in p.functions if f.__name__ == fs.name).cache
        p.replace(newf)
        return True
    return False


def history(rid, cache_type, mask, out_sel1, cut_sel1, out_sel2, cut_sel2, full1, full2, mut, newval, same_vals, a0, a1, a2, b0, b1, b2, region):  # noqa: C901
    """two calls (optionally a mutation in between) on a cached pipeline and its uncached twin"""
    L.reset()
    t = R[rid]
    try:
        with NoTracing():
            outs = [o for fs in t for o in fs.outputs]
            names = runt.all_names(t)
            prod = runt.producers(t)
        mut = L.concretize(mut, 0, 3)
        # the caches hash the argument values: case-split them up front
        a0, a1, newval = (L.concretize(x, 0, 1) for x in (a0, a1, newval))
        b0 = 1 - a0
        b1_in = b1
        a2, b1, b2 = a0, a1, a0
        calls = []
        for osel, csel, full, vals in ((out_sel1, cut_sel1, full1, (a0, a1, a2)), (out_sel2, cut_sel2, full2, (b0, b1, b2))):
            osel = L.concretize(osel, 0, len(outs) - 1)
            if not (0 <= osel < len(outs)):
                return True
            out = outs[osel]
            cuts = sorted(runt.valid_cuts(t, out))
            if region in ("roots", "mutation"):
                cuts = [c for c in cuts if not any(nm in prod for nm in c)]
            else:
                cuts = [c for c in cuts if any(nm in prod for nm in c)] + [c for c in cuts if not any(nm in prod for nm in c)][:1]
            csel = L.concretize(csel, 0, len(cuts) - 1)
            if not (0 <= csel < len(cuts)):
                return True
            calls.append((out, cuts[csel], full, vals))
        if same_vals:
            calls[1] = (calls[1][0], calls[1][1], calls[1][2], calls[0][3])
        else:  # the second call differs from the first in exactly one of the three values (position b1, case-split)
            dpos = L.concretize(b1_in, 0, 2)
            first = calls[0][3]
            calls[1] = (calls[1][0], calls[1][1], calls[1][2], tuple(1 - x if k == dpos else x for k, x in enumerate(first)))
        interior_supplied = any(nm in prod for _, cut, _, _ in calls for nm in cut)
        if region == "interior" and not interior_supplied:
            return True
        with NoTracing():
            from engine import shims

            shims.TOK.clear()
            pc, pu, log_c, log_u, cached = _twins(t, cache_type, mask)
            for o_ in {c[0] for c in calls}:
                runt.warm(pc, o_)
                runt.warm(pu, o_)
        mutated = False
        for k, (out, cut, full, vals) in enumerate(calls):
            if k == 1 and mut:
                mutated = _mutate(pc, t, mut, newval) and _mutate(pu, t, mut, newval)
                with NoTracing():
                    runt.warm(pc, out)
                    runt.warm(pu, out)
            kw = {nm: vals[names.index(nm) % 3] for nm in cut}
            with NoTracing():
                n_before = len(log_c)
            su, ru = _call(pu, out, kw, full)
            sc, rc = _call(pc, out, kw, full)
            if su != "ok":
                continue
            if sc != "ok":
                return fail("call succeeds without caching but raises with caching")
            if full:
                for key, val in ru.items():
                    if key not in rc or not (rc[key] == val):
                        return fail("full_output differs with caching")
            elif not (rc == ru):
                return fail("cached pipeline returned a different value")
            all_roots = {prm for fs in t for prm in fs.params if prm not in prod and prm not in fs.bound}
            explicit = all_roots & {prm for fs in t if fs.name in runt.ref_eval(t, out, kw)[1] for prm in fs.params} <= set(cut)
            if cache_type in SMALL:
                continue  # entries are evicted within a call: which ones are still resident is C14's subject
            if k == 1 and not mutated and calls[0][:2] == calls[1][:2] and same_vals and not interior_supplied and not calls[0][2] and not calls[1][2] and explicit:
                # repeated equal call: cached functions whose entry is resident are not re-executed
                for nm in list(log_c)[n_before:]:
                    if nm in cached:
                        return fail("a cached function was re-executed for a repeated equal call")
        return True
    finally:
        L.cleanup_dirs()


def special_values(cache_type, kind, a0, a1, a2, a3):
    """cached vs uncached for (kind 0) NumPy arguments equal in memory but not in value, (kind 1) a cached
    function whose result is None: no stale hit, and no re-execution for a repeated equal call"""
    L.reset()
    import numpy as np
    from pipefunc import Pipeline, pipefunc

    try:
        a0, a1, a2, a3 = (L.concretize(x, 0, 1) for x in (a0, a1, a2, a3))
        with NoTracing():
            calls = []

            def mk(cache):
                @pipefunc(output_name="s", cache=cache)
                def f(m):
                    calls.append(cache)
                    if kind == 1:
                        return None if int(np.asarray(m).sum()) == 0 else int(np.asarray(m)[0][1])
                    mm = np.asarray(m)
                    return int(mm[0][0] + 2 * mm[0][1] + 4 * mm[1][0] + 8 * mm[1][1])

                @pipefunc(output_name="t", cache=cache)
                def g(s, m):
                    return (s, int(np.asarray(m)[1][0]))

                return Pipeline([f, g], cache_type=cache_type if cache else None, cache_kwargs=_cache_kwargs(cache_type) if cache else None)

            pc, pu = mk(True), mk(False)
        a = np.array([[a0, a1], [a2, a3]])
        variants = [a, a.T, np.asfortranarray(a), a.T.copy(), a]
        for m in variants:
            with NoTracing():
                n_before = len([c for c in calls if c])
            if pc("t", m=m) != pu("t", m=m):
                return fail("cached pipeline returned a different value for an array / None result")
        if kind == 1:
            with NoTracing():
                n1 = len([c for c in calls if c])
            pc("s", m=a)
            with NoTracing():
                n2 = len([c for c in calls if c])
            if n2 != n1:
                return fail("a cached function (result None) was re-executed for a repeated equal call")
        return True
    finally:
        L.cleanup_dirs()


def map_cache(tid, cache_type, n0, n1, n2, *vals):
    """Pipeline.map with a cache and repeated input values (sequential): results equal the denotation"""
    L.reset()
    t = T[tid]
    n, v = tmpl.sizes_and_values(n0, n1, n2, vals)
    try:
        with NoTracing():
            from engine import shims

            shims.TOK.clear()
            log = tmpl.Log()
            funcs = tmpl.make_functions(t.funcs, log)
            for f in funcs:
                f.cache = True
            from pipefunc import Pipeline

            p = Pipeline(funcs, cache_type=cache_type, cache_kwargs=_cache_kwargs(cache_type))
        inputs = t.inputs(n, v)
        ref, ncalls = tmpl.reference(t.funcs, inputs)
        res = p.map(dict(inputs), storage="dict", parallel=False)
        if not tmpl.compare_results(t.funcs, res, ref):
            return False
        res2 = p.map(dict(inputs), storage="dict", parallel=False)
        return tmpl.compare_results(t.funcs, res2, ref)
    finally:
        L.cleanup_dirs()


CANARIES = {}


def _canary_key_without_values():
    import pipefunc._pipeline._base as PB
    import pipefunc._pipeline._cache as PC

    orig = PC.compute_cache_key

    def cck(output_name, kwargs, root_args):
        key = orig(output_name, kwargs, root_args)
        if key is not None and len(key[1]) >= 2:
            return key[0], key[1][:-1]  # the last root argument is dropped from the key
        return key

    PC.compute_cache_key = cck
    PB.compute_cache_key = cck


CANARIES["last_root_arg_missing_from_key"] = _canary_key_without_values


def obligations(tier):  # noqa: C901
    thorough = tier == "thorough"
    obs = []
    P = [("out_sel1", I), ("cut_sel1", I), ("out_sel2", I), ("cut_sel2", I), ("full1", Bo), ("full2", Bo), ("mut", I), ("newval", I), ("same_vals", Bo)] + [
        (x, I) for x in ("a0", "a1", "a2", "b0", "b1", "b2")
    ]
    PA = ", ".join(n for n, _ in P)
    vpre = " and ".join(f"0 <= {x} <= 1" for x in ("a0", "a1", "a2", "b0", "b1", "b2"))
    rids = ["R2", "R3", "R5", "R15"] + (["R7", "R9"] if thorough else [])
    ctypes = ["lru", "simple"] + (["hybrid", "disk"] if thorough else [])
    for rid in rids:
        t = R[rid]
        nf = len(t)
        nouts = len([o for fs in t for o in fs.outputs])
        masks = [(1 << nf) - 1, 1 << (nf - 1)] if not thorough else sorted({(1 << nf) - 1, 0b101 & ((1 << nf) - 1)} | {1 << k for k in range(nf)})
        for ct in ctypes:
            for mask in sorted(set(masks)):
                for region in ("roots", "interior", "mutation"):
                    if not thorough and region != "roots" and (ct != "lru" or mask != (1 << nf) - 1):
                        continue
                    if not thorough and ct == "simple" and mask != (1 << nf) - 1:
                        continue
                    if thorough and region != "roots" and mask not in ((1 << nf) - 1, 1 << (nf - 1)):
                        continue
                    if thorough and ct in ("hybrid", "disk") and mask != (1 << nf) - 1:
                        continue
                    pre = [(f"{nouts - 2} <= out_sel1 < {nouts}" if thorough else f"out_sel1 == {nouts - 1}") + " and out_sel2 == out_sel1", f"0 <= cut_sel1 <= {3 if thorough else 2} and 0 <= cut_sel2 <= {3 if thorough else 2}",
                           "0 <= a0 <= 1 and a1 == 0 and b0 == 0 and a2 == 0 and 0 <= b1 <= 2 and b2 == 0 and (b1 == 0 or not same_vals)",
                           "0 <= newval <= 1" if region == "mutation" else "newval == 0", "not full1"]
                    if region == "roots":
                        pre += ["mut == 0"]
                    elif region == "interior":
                        pre += ["mut == 0", "not full1 and not full2"]
                    else:
                        pre += ["1 <= mut <= 3", "not full1 and not full2", "same_vals"]
                    obs.append(
                        Ob(
                            f"hist_{rid}_{ct}_m{mask}_{region}",
                            P,
                            pre,
                            f"H.history({rid!r}, {ct!r}, {mask}, {PA}, {region!r})",
                            timeout=600,
                            flags=("tokpickle",) if ct == "disk" else (),
                            bounds=f"{rid}: cache {ct}, cached-function mask {mask:b}; two calls (last output; last two in the thorough tier; every valid set of supplied names, full_output "
                            f"symbolic, two values 0..1, second call equal or differing in exactly one value, position case-split) - region {region}: "
                            + {"roots": "root arguments only, no mutation", "interior": "an intermediate value is supplied in some call",
                               "mutation": "update_defaults / update_bound / replace between the calls"}[region],
                            canaries=("last_root_arg_missing_from_key",) if (rid, ct, region) == ("R2", "lru", "roots") and mask == (1 << nf) - 1 else (),
                        )  # fmt: skip
                    )
    for rid in ("R3", "R5"):
        t = R[rid]
        nf = len(t)
        nouts = len([o for fs in t for o in fs.outputs])
        for ct in ("hybrid1", "lru1") + (("hybrid2",) if thorough else ()):
            for region in ("roots", "mutation"):
                pre = [f"out_sel1 == {nouts - 1} and out_sel2 == out_sel1", "0 <= cut_sel1 <= 2 and 0 <= cut_sel2 <= 2", "0 <= a0 <= 1 and a1 == 0 and b0 == 0 and a2 == 0 and b1 == 0 and b2 == 0",
                       "0 <= newval <= 1" if region == "mutation" else "newval == 0", "not full1"]
                pre += ["mut == 0"] if region == "roots" else ["1 <= mut <= 3", "not full1 and not full2", "same_vals"]
                obs.append(
                    Ob(
                        f"hist_{rid}_{ct}_{region}",
                        P,
                        pre,
                        f"H.history({rid!r}, {ct!r}, {(1 << nf) - 1}, {PA}, {region!r})",
                        timeout=600,
                        bounds=f"{rid}: cache {SMALL[ct][0]} with max_size={SMALL[ct][1]} (overflows within one call), every function cached; two calls"
                        + (", update_defaults / update_bound / replace in between" if region == "mutation" else "") + ": every call that succeeds uncached returns an equal value",
                    )
                )
    for ct in ctypes:
        for kind in (0, 1):
            obs.append(
                Ob(f"special_{ct}_{'none' if kind else 'numpy'}", [(f"a{i}", I) for i in range(4)], [" and ".join(f"0 <= a{i} <= 1" for i in range(4))],
                   f"H.special_values({ct!r}, {kind}, a0, a1, a2, a3)", timeout=300, flags=("tokpickle",) if ct == "disk" else (),
                   bounds=f"cache {ct}: 2x2 int arrays (elements 0..1) passed as C-ordered, transposed view, Fortran copy; " + ("a cached function returning None" if kind else "position-weighted sum"))  # fmt: skip
            )
    for tid in ("T2", "T3") + (("T4", "T8") if thorough else ()):
        t = T[tid]
        for ct in ("lru", "simple") + (("hybrid", "disk") if thorough else ()):
            obs.append(
                Ob(
                    f"mapcache_{tid}_{ct}",
                    tmpl.MAP_PARAMS,
                    tmpl.size_pre(t, 2) + [" and ".join(f"0 <= v{i} <= 1" for i in range(6)) + " and " + " and ".join(f"v{i} == 0" for i in range(6, 12))],
                    f"H.map_cache({tid!r}, {ct!r}, {tmpl.MAP_ARGS})",
                    timeout=400,
                    flags=("tokpickle",) if ct == "disk" else (),
                    bounds=f"{tid}: map with cache {ct} on every function, input values 0..1 (repeats), run twice",
                )
            )
    return obs

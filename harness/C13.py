"""C13 - user-function failures surface unchanged, attributed and reproducible."""
from __future__ import annotations

import os

from engine.ob import Ob
from harness import lib as L
from harness import runt, tmpl
from harness.C03 import SymExecutor
from harness.lib import NoTracing, fail
from harness.runt import R
from harness.tmpl import T

from pipefunc._pipefunc import ErrorSnapshot
from pipefunc.map import load_outputs

WHY = L.WHY
OUTSIDE = "process pools (exceptions cross a pickle boundary), map_async, the text of the printed diagnostic; values in the annotation are checked for inputs in 0..1 only"
ASSUMPTIONS = ["inputs are restricted to 0..1 because the error annotation formats the keyword arguments (realisation)"]


class MyErr(Exception):
    """a custom picklable exception class"""


def _exc(kind):
    if kind == 0:
        return ValueError("x")
    if kind == 1:
        return RuntimeError()
    return MyErr(1, "a")


class FailPlan:
    """raise in the k-th call of function `fname`; raise again for any later call with equal arguments
    (so that ErrorSnapshot.reproduce() is deterministic)"""

    def __init__(self, fname, k, kind):
        self.fname, self.k, self.kind = fname, k, kind
        self.count = 0
        self.failed_args = None
        self.armed = True
        self.instance = None  # when set: the very same exception object is raised every time

    def __call__(self, name, nth, args=None):
        if name != self.fname:
            return
        self.count += 1
        if self.armed and self.count == self.k:
            self.failed_args = args
            raise self.instance if self.instance is not None else _exc(self.kind)
        if self.failed_args is not None and args is not None and _same(args, self.failed_args):
            raise self.instance if self.instance is not None else _exc(self.kind)


def _same(a, b):
    return tmpl.tolist(list(a)) == tmpl.tolist(list(b))


def _check_exc(e, kind, fname, params):
    exp = _exc(kind)
    if type(e) is not type(exp):
        return fail("exception type changed")
    if e.args != exp.args:
        return fail("exception args changed")
    notes = getattr(e, "__notes__", [])
    if not any(fname in n_ for n_ in notes):
        return fail("no annotation naming the failing function")
    note = next(n_ for n_ in notes if fname in n_)
    for p in params:
        if (p + "=") not in note:
            return fail("annotation lacks a keyword argument of the failing invocation")
    return True


def fail_map(tid, storage, use_exec, fname, k, kind, c0, c1, n0, n1, n2, *vals):  # noqa: C901, PLR0911, PLR0912
    L.reset()
    t = T[tid]
    n, v = tmpl.sizes_and_values(n0, n1, n2, vals)
    k = L.concretize(k, 1, 9)
    kind = L.concretize(kind, 0, 2)
    try:
        with NoTracing():
            from engine import shims

            shims.TOK.clear()
            log = tmpl.Log()
            plan = FailPlan(fname, k, kind)
            p = tmpl.make_pipeline(t.funcs, log, fail_at=plan)
            folder = L.scratch_dir() if storage != "dict" else None
        inputs = t.inputs(n, v)
        ref, ncalls = tmpl.reference(t.funcs, inputs)
        fs_fail = next(fs for fs in t.funcs if fs.name == fname)
        executor = SymExecutor([c0, c1], log) if use_exec else None
        try:
            p.map(dict(inputs), run_folder=folder, storage=storage, parallel=bool(use_exec), executor=executor)
            raised = None
        except Exception as e:  # noqa: BLE001
            raised = e
        if k > ncalls[fname]:
            if raised is not None:
                return fail("exception without a failing invocation")
            return True
        if raised is None:
            return fail("failure of a user function was swallowed")
        if not _check_exc(raised, kind, fname, [q for q in fs_fail.params]):
            return False
        # no function that consumes the failing function's output (directly or not) was invoked
        prod = {o: fs for fs in t.funcs for o in fs.outputs}

        def depends(fs, target, seen=()):
            for q in fs.params:
                if q in prod and q not in fs.bound:
                    if prod[q].name == target or (prod[q].name not in seen and depends(prod[q], target, seen + (fs.name,))):
                        return True
            return False

        for fs in t.funcs:
            if fs.name != fname and depends(fs, fname) and log.count(fs.name):
                return fail("a function of a later generation ran after the failure")
        # snapshot
        snap = p.error_snapshot
        if snap is None or not isinstance(snap, ErrorSnapshot):
            return fail("no ErrorSnapshot on the pipeline")
        pf = next(f for f in p.functions if f.__name__ == fname)
        if pf.error_snapshot is None:
            return fail("no ErrorSnapshot on the failing function")
        with NoTracing():
            plan.armed = False
        try:
            snap.reproduce()
            return fail("reproduce() did not raise")
        except Exception as e2:  # noqa: BLE001
            if type(e2) is not type(_exc(kind)) or e2.args != _exc(kind).args:
                return fail("reproduce() raised something else")
        if not use_exec:
            d = L.scratch_dir()
            fn = os.path.join(d, "snap.pkl")
            snap.save_to_file(fn)
            snap2 = ErrorSnapshot.load_from_file(fn)
            try:
                snap2.reproduce()
                return fail("reloaded reproduce() did not raise")
            except Exception as e3:  # noqa: BLE001
                if type(e3) is not type(_exc(kind)) or e3.args != _exc(kind).args:
                    return fail("reloaded reproduce() raised something else")
        # results completed before the failure remain loadable
        if folder is not None:
            for fs in t.funcs:
                if fs.name == fname or depends(fs, fname):
                    continue
                if log.count(fs.name) != ncalls[fs.name]:
                    continue
                for o in fs.outputs:
                    if not tmpl.same_value(load_outputs(o, run_folder=folder), ref[o]):
                        return fail("a result completed before the failure is not loadable")
        return True
    finally:
        L.cleanup_dirs()


def fail_twice(storage, v0, v1, kind, reuse=False):
    """two failing maps on the same pipeline object: the snapshot and the annotation describe the most recent
    failure - also when the user function raises the very same exception object both times (reuse)"""
    L.reset()
    t = T["T1"]
    kind = L.concretize(kind, 0, 2)
    v0, v1 = L.concretize(v0, 0, 1), L.concretize(v1, 0, 1)
    if v0 == v1:
        return True
    try:
        with NoTracing():
            from engine import shims

            shims.TOK.clear()
            log = tmpl.Log()
            plan = FailPlan("f", 1, kind)
            if reuse:
                plan.instance = _exc(kind)
            p = tmpl.make_pipeline(t.funcs, log, fail_at=plan)
            folder = L.scratch_dir() if storage != "dict" else None
        for k_fail, xfail in ((1, v0), (2, v1)):
            with NoTracing():
                plan.k, plan.count, plan.armed, plan.failed_args = k_fail, 0, True, None
            try:
                p.map({"x": [v0, v1]}, run_folder=folder, storage=storage, parallel=False)
                return fail("failure swallowed")
            except Exception as e:  # noqa: BLE001
                if type(e) is not type(_exc(kind)):
                    return fail("exception type changed")
                notes = [n_ for n_ in getattr(e, "__notes__", []) if "f(" in n_]
                if not any(f"x={xfail}" in n_ for n_ in notes):
                    return fail("the annotation does not show the keyword arguments of the failing invocation")
            snap = p.error_snapshot
            if snap is None:
                return fail("no snapshot")
            if snap.kwargs.get("x") != xfail:
                return fail("the snapshot describes an earlier failure, not the failing invocation")
            with NoTracing():
                plan.armed = False
            try:
                snap.reproduce()
                return fail("reproduce() did not raise")
            except Exception as e2:  # noqa: BLE001
                if type(e2) is not type(_exc(kind)):
                    return fail("reproduce() raised something else")
        return True
    finally:
        L.cleanup_dirs()


def fail_run(rid, out, fname, kind, v0, v1, v2, v3, v4, v5):
    """pipeline(out, **roots) with function `fname` raising"""
    L.reset()
    t = R[rid]
    vals = (v0, v1, v2, v3, v4, v5)
    kind = L.concretize(kind, 0, 2)
    with NoTracing():
        log = []
        plan = FailPlan(fname, 1, kind)
        p = runt.make(t, log, fail_at=plan)
        runt.warm(p, out)
        kw = {a: x for a, x in zip(p.root_args(out), vals)}
    exp, called, used, memo = runt.ref_eval(t, out, kw)
    try:
        p(out, **kw)
        raised = None
    except Exception as e:  # noqa: BLE001
        raised = e
    if fname not in called:
        return raised is None or fail("exception although the failing function is not needed")
    if raised is None:
        return fail("failure swallowed")
    fs_fail = next(fs for fs in t if fs.name == fname)
    if not _check_exc(raised, kind, fname, [q for q in fs_fail.params if q not in fs_fail.renamed]):
        return False
    pos = called.index(fname)
    for later in called[pos + 1 :]:
        if later in log:
            return fail("a dependent function ran after the failure")
    if p.error_snapshot is None:
        return fail("no ErrorSnapshot")
    try:
        p.error_snapshot.reproduce()
        return fail("reproduce() did not raise")
    except Exception as e2:  # noqa: BLE001
        if type(e2) is not type(_exc(kind)) or e2.args != _exc(kind).args:
            return fail("reproduce() raised something else")
    return True


def _leaked_threads(before):
    """threads started since `before` that are still running; they are released so that the worker can exit"""
    import threading

    with NoTracing():
        leaked = [th for th in threading.enumerate() if th not in before and th.is_alive()]
        for th in leaked:
            owner = getattr(getattr(th, "_target", None), "__self__", None)
            ev = getattr(owner, "stop_event", None)
            if ev is not None:
                ev.set()
            th.join(timeout=5)
    return leaked


def fail_profiled(use_map, k, kind, v0, v1):
    """profile=True: a failing profiled function surfaces its exception as usual and the call leaves no running
    (non-daemon sampler) thread behind - otherwise the program cannot terminate"""
    import threading

    L.reset()
    t = T["T1"]
    k = L.concretize(k, 1, 3)
    kind = L.concretize(kind, 0, 2)
    v0, v1 = L.concretize(v0, 0, 1), L.concretize(v1, 0, 1)
    with NoTracing():
        log = tmpl.Log()
        plan = FailPlan("f", k, kind)
        p = tmpl.make_pipeline(t.funcs, log, fail_at=plan, profile=True)
        before = set(threading.enumerate())
    ncalls = 2 if use_map else 1
    try:
        if use_map:
            p.map({"x": [v0, v1]}, storage="dict", parallel=False)
        else:
            p("y", x=v0)
        raised = None
    except Exception as e:  # noqa: BLE001
        raised = e
    leaked = _leaked_threads(before)
    if leaked:
        return fail("a thread started by the call is still running after it returned (the program would hang)")
    if k > ncalls:
        return raised is None or fail("exception without a failing invocation")
    if raised is None:
        return fail("failure of a profiled function was swallowed")
    return _check_exc(raised, kind, "f", ["x"])


CANARIES = {}


def _canary_swallow_last():
    import pipefunc.map._run as Rn

    orig = Rn._run_iteration

    def ri(func, selected, cache):
        try:
            return orig(func, selected, cache)
        except RuntimeError:
            return None

    Rn._run_iteration = ri


CANARIES["runtimeerror_swallowed_in_map"] = _canary_swallow_last


def obligations(tier):
    thorough = tier == "thorough"
    obs = []
    I, Bo = "int", "bool"
    VP = [(f"v{i}", I) for i in range(12)]
    vpre = " and ".join(f"0 <= v{i} <= 1" for i in range(4)) + " and " + " and ".join(f"v{i} == 0" for i in range(4, 12))
    cases = [
        ("T1", "f", ["dict", "file_array"]),
        ("T4", "f", ["dict"]),
        ("T8", "f", ["file_array"]),
        ("T8", "h", ["dict"]),
        ("T13", "pre", ["dict"]),
        ("T13", "f", ["file_array"]),
    ]
    if thorough:
        cases += [("T4", "g", ["file_array"]), ("T4", "n", ["dict"]), ("T4", "h", ["dict", "file_array"]), ("T12", "h", ["dict", "file_array"]), ("T12", "k", ["dict"]), ("T5", "tot", ["file_array"]), ("T17", "g", ["dict"])]
    for tid, fname, storages in cases:
        t = T[tid]
        for st in storages:
            for use_exec in (False, True):
                if use_exec and not thorough and (tid, fname) in (("T4", "g"),):
                    continue  # the annotation formats whole arrays of computed values: too slow for the quick tier
                obs.append(
                    Ob(
                        f"failmap_{tid}_{fname}_{st}_{'exec' if use_exec else 'seq'}",
                        [("k", I), ("kind", I), ("c0", I), ("c1", I), ("n0", I), ("n1", I), ("n2", I)] + VP,
                        ["1 <= k <= 5" if (thorough or not use_exec) else "1 <= k <= 3", "0 <= kind <= 2", "0 <= c0 <= 2 and 0 <= c1 <= 2" if use_exec else "c0 == 0 and c1 == 0", vpre]
                        + (tmpl.size_pre(t, 2) if (thorough or not use_exec) else [" and ".join(f"n{a} == {2 if a < t.axes else 1}" for a in range(3))]),
                        f"H.fail_map({tid!r}, {st!r}, {use_exec}, {fname!r}, k, kind, c0, c1, n0, n1, n2, {', '.join(n for n, _ in VP)})",
                        timeout=500 if not thorough else 1500,
                        flags=("tokpickle",),
                        bounds=f"{tid}: function {fname} raises in its k-th call (k symbolic 1..5, beyond the last call = no failure), exception kind symbolic "
                        f"(ValueError('x'), RuntimeError(), custom class with args); storage {st}; {'symbolic-order executor' if use_exec else 'sequential'}; sizes 1..2",
                        canaries=("runtimeerror_swallowed_in_map",) if (tid, fname, st, use_exec) == ("T1", "f", "dict", False) else (),
                    )
                )
    obs.append(
        Ob("fail_profiled", [("use_map", "bool"), ("k", I), ("kind", I), ("v0", I), ("v1", I)], ["1 <= k <= 3", "0 <= kind <= 2", "0 <= v0 <= 1 and 0 <= v1 <= 1"],
           "H.fail_profiled(use_map, k, kind, v0, v1)", timeout=200,
           bounds="Pipeline(profile=True): the profiled function raises in its k-th call (map over 2 elements or a direct call): same exception, annotated, "
           "and no thread started by the call is still alive afterwards")  # fmt: skip
    )
    for st in ("dict", "file_array"):
        obs.append(
            Ob(f"failtwice_{st}", [("v0", I), ("v1", I), ("kind", I), ("reuse", "bool")], ["0 <= v0 <= 1 and 0 <= v1 <= 1", "0 <= kind <= 2"], f"H.fail_twice({st!r}, v0, v1, kind, reuse)",
               timeout=200, flags=("tokpickle",), bounds=f"two failing maps on one pipeline object ({st}), different failing invocation, same exception kind (fresh or the very same exception object): snapshot and annotation describe the latest failure")  # fmt: skip
        )
    for rid, out, fnames in (("R1", "e", ["f", "g", "h"]), ("R2", "e", ["f", "h", "k"]), ("R3", "z", ["g", "k"]), ("R7", "s", ["f"])):
        for fname in fnames:
            obs.append(
                Ob(
                    f"failrun_{rid}_{out}_{fname}",
                    [("kind", I)] + [(f"v{i}", I) for i in range(6)],
                    ["0 <= kind <= 2", " and ".join(f"0 <= v{i} <= 1" for i in range(6))],
                    f"H.fail_run({rid!r}, {out!r}, {fname!r}, kind, v0, v1, v2, v3, v4, v5)",
                    timeout=200,
                    bounds=f"{rid}: pipeline({out!r}) with {fname} raising; type/args, annotation, no dependent function runs, ErrorSnapshot.reproduce",
                )
            )
    return obs

"""E2 (kernelsmt) obligations of C20: wall-time and memory strings of Resources.

The real source of Resources.__post_init__, _is_valid_wall_time, _is_valid_memory, _convert_to_gb,
combine_max (and whatever they call inside pipefunc) is interpreted symbolically over structured
z3 strings; the property is asserted negated per path.
"""
from __future__ import annotations

import inspect
import re
import time

import z3

from engine.kernelsmt.pyz3 import DIGIT, Engine, Untranslatable

import pipefunc.resources as RES
from pipefunc.resources import Resources

UNITS = ["B", "KB", "MB", "GB", "TB", "PB"]
MULT = [1, 60, 3600, 86400]


def _s(model, t):
    v = model.eval(t, model_completion=True)
    return v.as_string() if z3.is_string_value(v) else str(v)


def _result(state, eng, paths, message="", ce=None, t0=0.0):
    return {
        "state": state,
        "message": message,
        "ce": ce,
        "paths": paths,
        "z3_calls": eng.queries if eng else 0,
        "z3_s": round(eng.solver_s, 3) if eng else 0.0,
        "functions_encoded": sorted(eng.functions) if eng else [],
        "wall_s": round(time.time() - t0, 2),
    }


# ------------------------------------------------------------------ translator validation
def _literals(pattern):
    """string literals in the repository's own resource tests that match `pattern`"""
    try:
        src = open("/repo/tests/test_resources.py").read()
    except OSError:
        return []
    out = []
    for m in re.finditer(r"[\"']([^\"'\n]{1,20})[\"']", src):
        if re.fullmatch(pattern, m.group(1)):
            out.append(m.group(1))
    return sorted(set(out))


def validate_translator(kind):
    """run the interpreter on concrete literals from the repo's tests and compare with the real code"""
    lits = _literals(r"\d+(:\d+)+") if kind == "time" else _literals(r"\d+(\.\d+)?[A-Za-z]{1,2}")
    lits = lits[:8] or (["1:00:00", "30:00"] if kind == "time" else ["2GB", "500MB"])
    n = 0
    for a in lits:
        for b in lits[:3]:
            eng = Engine(vars(RES))
            field = "time" if kind == "time" else "memory"

            def thunk():
                r1 = eng.construct(Resources, {field: a})
                r2 = eng.construct(Resources, {field: b})
                return eng.apply(inspect.getattr_static(Resources, "combine_max"), [[r1, r2]], {})

            paths = eng.explore(thunk)
            try:
                real = getattr(Resources.combine_max([Resources(**{field: a}), Resources(**{field: b})]), field)
                real_kind = "ok"
            except ValueError:
                real, real_kind = None, "raise"
            if len(paths) != 1:
                return False, f"{len(paths)} paths on concrete input {a!r}, {b!r}"
            kind_, v = paths[0][1]
            if kind_ != real_kind or (kind_ == "ok" and v.fields[field] != real):
                return False, f"encoding disagrees with the real function on {a!r}, {b!r}"
            n += 1
    return True, n


# ------------------------------------------------------------------ K1 wall time
def structured_time(eng, name, nf, lead_digits=3):
    fs = [z3.String(f"{name}_f{i}") for i in range(nf)]
    parts, cons = [], []
    for i, f in enumerate(fs):
        if i:
            parts.append(z3.StringVal(":"))
        parts.append(f)
        if i == 0 and nf > 2:
            eng.declare_piece(f, z3.Loop(DIGIT, 1, lead_digits))
            cons += [z3.Length(f) >= 1, z3.Length(f) <= lead_digits]
        else:
            eng.declare_piece(f, z3.Loop(DIGIT, 2, 2))
            cons += [z3.Length(f) == 2]
        cons += [z3.StrToInt(f) >= 0]
    dur = sum(z3.StrToInt(f) * MULT[n] for n, f in enumerate(reversed(fs)))
    return z3.Concat(*parts), dur, cons


def k1_time(nf1, nf2, nf3=0):
    """for all wall-time strings with nf1 / nf2 (/ nf3) fields: combine_max picks one of maximal duration"""
    t0 = time.time()
    eng = None
    try:
        ok, info = validate_translator("time")
        if not ok:
            return _result("INCONCLUSIVE", None, 0, "translator validation failed: " + str(info), t0=t0)
        eng = Engine(vars(RES))
        ts = [structured_time(eng, f"t{i + 1}", nf) for i, nf in enumerate([nf1, nf2] + ([nf3] if nf3 else []))]
        for _, _, c in ts:
            eng.base += c

        def thunk():
            rs = [eng.construct(Resources, {"time": t}) for t, _, _ in ts]
            return eng.apply(inspect.getattr_static(Resources, "combine_max"), [rs], {})

        paths = eng.explore(thunk)

        def ce(m):
            return {f"t{i + 1}": _s(m, t) for i, (t, _, _) in enumerate(ts)}

        for pc, (kind, v) in paths:
            eng.pc = pc
            if kind == "raise":
                sat, m = eng.check()
                if sat:
                    return _result("REFUTED", eng, len(paths), "valid wall time rejected", ce(m), t0)
                continue
            out = v.fields["time"]
            if out is None:
                sat, m = eng.check()
                if sat:
                    return _result("REFUTED", eng, len(paths), "time dropped", ce(m), t0)
                continue
            which = [out.get_id() == t.get_id() if z3.is_expr(out) else False for t, _, _ in ts]
            if not any(which):
                return _result("INCONCLUSIVE", eng, len(paths), "result is not structurally one of the operands", t0=t0)
            dout = ts[which.index(True)][1]
            prop = z3.And([dout >= d for _, d, _ in ts])
            if eng.check_abstract(z3.Not(prop)):
                continue
            sat, m = eng.check(z3.Not(prop))
            if sat:
                return _result("REFUTED", eng, len(paths), "chosen time is not of maximal duration", ce(m), t0)
        return _result("CONFIRMED", eng, len(paths), f"{len(paths)} paths; translator validated on {info} concrete cases", t0=t0)
    except Untranslatable as e:
        return _result("INCONCLUSIVE", eng, 0, "untranslatable: " + str(e), t0=t0)


def _dur(t):
    return sum(int(x) * m for x, m in zip(reversed(t.split(":")), MULT))


def k1_replay(t1, t2, t3=None):
    ts = [t for t in (t1, t2, t3) if t is not None]
    out = Resources.combine_max([Resources(time=t) for t in ts]).time
    return out in ts and all(_dur(out) >= _dur(t) for t in ts)


# ------------------------------------------------------------------ K2 memory
def structured_memory(eng, name, hasf, unit):
    ip = z3.String(name + "_ip")
    fp = z3.String(name + "_fp")
    u = z3.StringVal(unit)
    eng.declare_piece(ip, z3.Loop(DIGIT, 1, 4))
    cons = [z3.Length(ip) >= 1, z3.Length(ip) <= 4, z3.StrToInt(ip) >= 0]
    if hasf:
        eng.declare_piece(fp, z3.Loop(DIGIT, 1, 2))
        cons += [z3.Length(fp) >= 1, z3.Length(fp) <= 2, z3.StrToInt(fp) >= 0]
        s = z3.Concat(ip, z3.StringVal("."), fp, u)
    else:
        s = z3.Concat(ip, u)
    val = z3.ToReal(z3.StrToInt(ip))
    if hasf:
        val = val + z3.If(z3.Length(fp) == 1, z3.ToReal(z3.StrToInt(fp)) / 10, z3.ToReal(z3.StrToInt(fp)) / 100)
    return s, val * (1000 ** UNITS.index(unit)), cons


def k2_memory(hf1, u1, hf2, u2):
    """for all <=4 digits[.<=2 digits]<unit> pairs: combine_max keeps a memory of maximal size, never drops it"""
    t0 = time.time()
    eng = None
    try:
        ok, info = validate_translator("memory")
        if not ok:
            return _result("INCONCLUSIVE", None, 0, "translator validation failed: " + str(info), t0=t0)
        eng = Engine(vars(RES))
        M1, g1, c1 = structured_memory(eng, "m1", hf1, u1)
        M2, g2, c2 = structured_memory(eng, "m2", hf2, u2)
        eng.base += c1 + c2

        def thunk():
            r1 = eng.construct(Resources, {"memory": M1})
            r2 = eng.construct(Resources, {"memory": M2})
            return eng.apply(inspect.getattr_static(Resources, "combine_max"), [[r1, r2]], {})

        paths = eng.explore(thunk)

        def ce(m):
            return {"m1": _s(m, M1), "m2": _s(m, M2)}

        for pc, (kind, v) in paths:
            eng.pc = pc
            if kind == "raise":
                sat, m = eng.check()
                if sat:
                    return _result("REFUTED", eng, len(paths), "valid memory rejected", ce(m), t0)
                continue
            mem = v.fields["memory"]
            if mem is None:
                sat, m = eng.check()
                if sat:
                    return _result("REFUTED", eng, len(paths), "memory dropped", ce(m), t0)
                continue
            if mem is M1:
                prop = g1 >= g2
            elif mem is M2:
                prop = g2 >= g1
            else:
                return _result("INCONCLUSIVE", eng, len(paths), "result is not structurally one of the operands", t0=t0)
            if eng.check_abstract(z3.Not(prop)):
                continue
            sat, m = eng.check(z3.Not(prop))
            if sat:
                return _result("REFUTED", eng, len(paths), "chosen memory is not of maximal size", ce(m), t0)
        return _result("CONFIRMED", eng, len(paths), f"{len(paths)} paths; translator validated on {info} concrete cases", t0=t0)
    except Untranslatable as e:
        return _result("INCONCLUSIVE", eng, 0, "untranslatable: " + str(e), t0=t0)


def _size(m):
    mt = re.fullmatch(r"(\d+(?:\.\d+)?)([KMGTP]?B)", m)
    from fractions import Fraction

    return Fraction(mt.group(1)) * 1000 ** UNITS.index(mt.group(2))


def k2_replay(m1, m2):
    out = Resources.combine_max([Resources(memory=m1), Resources(memory=m2)]).memory
    return out in (m1, m2) and _size(out) >= _size(m1) and _size(out) >= _size(m2)


# ------------------------------------------------------------------ shapes accepted / rejected
SHAPES = {
    # name: (field, pieces, expected accepted?)   pieces: list of z3 regex or literal str
    "time_mm_ss": ("time", [z3.Loop(DIGIT, 2, 2), ":", z3.Loop(DIGIT, 2, 2)], True),
    "time_h_mm_ss": ("time", [z3.Loop(DIGIT, 1, 3), ":", z3.Loop(DIGIT, 2, 2), ":", z3.Loop(DIGIT, 2, 2)], True),
    "time_d_hh_mm_ss": ("time", [z3.Loop(DIGIT, 1, 3), ":", z3.Loop(DIGIT, 2, 2), ":", z3.Loop(DIGIT, 2, 2), ":", z3.Loop(DIGIT, 2, 2)], True),
    "time_one_digit_group": ("time", [z3.Loop(DIGIT, 1, 3), ":", z3.Loop(DIGIT, 2, 2), ":", z3.Loop(DIGIT, 1, 1)], False),
    "time_no_colon": ("time", [z3.Loop(DIGIT, 1, 6)], False),
    "time_five_fields": ("time", [z3.Loop(DIGIT, 1, 2), ":", z3.Loop(DIGIT, 2, 2), ":", z3.Loop(DIGIT, 2, 2), ":", z3.Loop(DIGIT, 2, 2), ":", z3.Loop(DIGIT, 2, 2)], False),
    "time_letter": ("time", [z3.Loop(DIGIT, 2, 2), ":", z3.Loop(DIGIT, 1, 1), z3.Range("a", "z")], False),
    "mem_int_unit": ("memory", [z3.Loop(DIGIT, 1, 4), z3.Union(*[z3.Re(u) for u in UNITS])], True),
    "mem_frac_unit": ("memory", [z3.Loop(DIGIT, 1, 4), ".", z3.Loop(DIGIT, 1, 2), z3.Union(*[z3.Re(u) for u in UNITS])], True),
    "mem_no_unit": ("memory", [z3.Loop(DIGIT, 1, 4)], False),
    "mem_bad_unit": ("memory", [z3.Loop(DIGIT, 1, 4), z3.Union(z3.Re("XB"), z3.Re("G"), z3.Re("BB"), z3.Re("KiB"))], False),
    "mem_dot_only": ("memory", [z3.Loop(DIGIT, 1, 4), ".", z3.Re("GB")], False),
    "mem_leading_dot": ("memory", [".", z3.Loop(DIGIT, 1, 2), z3.Re("GB")], False),
}


def shape(name):
    """every string of the shape is accepted (or: rejected) by the constructor"""
    t0 = time.time()
    eng = None
    field, pieces, accepted = SHAPES[name]
    try:
        eng = Engine(vars(RES))
        parts = []
        for n, p in enumerate(pieces):
            if isinstance(p, str):
                parts.append(z3.StringVal(p))
            else:
                v = z3.String(f"p{n}")
                eng.declare_piece(v, p)
                parts.append(v)
        s = z3.Concat(*parts) if len(parts) > 1 else parts[0]
        paths = eng.explore(lambda: eng.construct(Resources, {field: s}))
        for pc, (kind, v) in paths:
            eng.pc = pc
            bad = (kind == "raise") if accepted else (kind == "ok")
            if bad:
                sat, m = eng.check()
                if sat:
                    return _result("REFUTED", eng, len(paths), f"string of shape {name} {'rejected' if accepted else 'accepted'}", {"field": field, "s": _s(m, s), "accepted": accepted}, t0)
        return _result("CONFIRMED", eng, len(paths), f"{len(paths)} paths", t0=t0)
    except Untranslatable as e:
        return _result("INCONCLUSIVE", eng, 0, "untranslatable: " + str(e), t0=t0)


def shape_replay(field, s, accepted):
    try:
        Resources(**{field: s})
        ok = True
    except ValueError:
        ok = False
    return ok == accepted

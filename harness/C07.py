"""C07 - every storage backend behaves as a masked n-d object array."""
from __future__ import annotations

import itertools

import numpy as np

from engine.ob import Ob
from harness import lib as L
from harness.lib import NoTracing, fail

from pipefunc.map._storage_array import _base as B
from pipefunc.map._storage_array._dict import DictArray
from pipefunc.map._storage_array._file import FileArray

WHY = L.WHY
OUTSIDE = "rank > 3, sizes > 3, zarr backends, the manager-backed shared_memory_dict (dict_sub stands in for its code path)"
ASSUMPTIONS = ["dump keys / read keys that reach a real dict or a file name are realised (case split inside the stated ranges)"]


class DictSub(DictArray):
    """DictArray that is dumped by the worker, standing in for shared_memory_dict."""

    storage_id = "dict_sub"
    requires_serialization = True

    @property
    def dump_in_subprocess(self) -> bool:
        return True


B.register_storage(DictSub)
BACKENDS = {"dict": DictArray, "file": FileArray, "dict_sub": DictSub}


# --------------------------------------------------------------------------
# kernel: normalize_key against a reference
# --------------------------------------------------------------------------
def _ref_normalize(key, sizes):
    if len(key) != len(sizes):
        raise IndexError
    out = []
    for k, n in zip(key, sizes):
        if isinstance(k, slice):
            out.append(k)
            continue
        if not (-n <= k < n):
            raise IndexError
        out.append(k + n if k < 0 else k)
    return tuple(out)


def _full_sizes(shape, internal, mask):
    e = i = 0
    out = []
    for m in mask:
        if m:
            out.append(shape[e])
            e += 1
        else:
            out.append(internal[i])
            i += 1
    return tuple(out)


def nk(mask, for_dump, klen, k0, k1, k2, n0, n1, n2, slpos):
    """normalize_key == reference, for a concrete mask, symbolic key and sizes.
    `slpos` (1-based, 0 = none) replaces one key entry by a slice."""
    L.reset()
    sizes = (n0, n1, n2)[: len(mask)]
    shape = tuple(s for s, m in zip(sizes, mask) if m)
    internal = tuple(s for s, m in zip(sizes, mask) if not m)
    key = [k0, k1, k2][:klen]
    if slpos and slpos <= klen:
        key[slpos - 1] = slice(None)
    key = tuple(key)
    target = shape if for_dump else sizes
    try:
        exp = _ref_normalize(key, target)
        exp_ok = True
    except IndexError:
        exp_ok = False
    try:
        got = B.normalize_key(key, shape, internal, mask, for_dump=for_dump)
        got_ok = True
    except IndexError:
        got_ok = False
    if exp_ok != got_ok:
        return fail("accept/reject differs")
    if not exp_ok:
        return True
    if len(got) != len(exp):
        return fail("length")
    for g, e in zip(got, exp):
        if isinstance(e, slice):
            if not (isinstance(g, slice) and g == e):
                return fail("slice changed")
        elif g != e:
            return fail("normalised value")
    return True


def sbm(m0: bool, m1: bool, m2: bool, a0, a1, a2, b0, b1, b2):
    """select_by_mask interleaves two tuples according to the mask."""
    L.reset()
    mask = (m0, m1, m2)
    t1 = (a0, a1, a2)
    t2 = (b0, b1, b2)
    got = B.select_by_mask(mask, t1, t2)
    i1 = i2 = 0
    for pos, m in enumerate(mask):
        if m:
            if got[pos] != t1[i1]:
                return fail("ext")
            i1 += 1
        else:
            if got[pos] != t2[i2]:
                return fail("int")
            i2 += 1
    return len(got) == 3


# --------------------------------------------------------------------------
# operation sequences against a masked-array reference
# --------------------------------------------------------------------------
MASKED = "<masked>"


class Ref:
    """reference: dict external index -> value (nested list of internal shape, or scalar)"""

    def __init__(self, shape, internal, mask):
        self.shape, self.internal, self.mask = shape, internal, mask
        self.data = {}
        self.full = _full_sizes(shape, internal, mask)

    @staticmethod
    def norm(key, sizes):
        if len(key) != len(sizes):
            raise IndexError
        out = []
        for k, n in zip(key, sizes):
            if isinstance(k, slice):
                out.append(list(range(*k.indices(n))))
            else:
                if not (-n <= k < n):
                    raise IndexError
                out.append([k % n])
        return out

    def dump(self, key, value):
        for idx in itertools.product(*self.norm(key, self.shape)):
            self.data[idx] = value

    def elem(self, full_idx):
        ext = tuple(i for i, m in zip(full_idx, self.mask) if m)
        inn = tuple(i for i, m in zip(full_idx, self.mask) if not m)
        if ext not in self.data:
            return MASKED
        v = self.data[ext]
        for i in inn:
            v = v[i]
        return v

    def getitem(self, key):
        ranges = self.norm(key, self.full)
        if not any(isinstance(k, slice) for k in key):
            return self.elem(tuple(r[0] for r in ranges))
        shape = tuple(len(r) for r, k in zip(ranges, key) if isinstance(k, slice))
        return shape, [self.elem(idx) for idx in itertools.product(*ranges)]


def _is_masked(x) -> bool:
    return x is np.ma.masked


def same(got, exp) -> bool:
    if isinstance(exp, str) and exp == MASKED:
        return _is_masked(got)
    if _is_masked(got):
        return False
    return bool(got == exp)


def _value(v, internal):
    """distinguishable value of the internal shape (nested list of symbolic ints)"""
    if not internal:
        return v
    return L.build(internal, lambda idx: v + sum((d + 1) * 10 ** (k + 1) for k, d in enumerate(idx)))


def _mk(backend, shape, internal, mask):
    cls = BACKENDS[backend]
    folder = L.scratch_dir() if backend == "file" else None
    return cls(folder, shape, internal or None, mask if internal else None)


def _read_cmp(arr, ref, kind, key, lin):  # noqa: C901, PLR0911, PLR0912
    shape, internal, mask = ref.shape, ref.internal, ref.mask
    if kind == "get":
        try:
            exp = ref.getitem(key)
            ref_ok = True
        except IndexError:
            ref_ok = False
        try:
            got = arr[key]
            arr_ok = True
        except IndexError:
            arr_ok = False
        if ref_ok != arr_ok:
            return fail("getitem accept/reject")
        if not ref_ok:
            return True
        if isinstance(exp, tuple):
            shp, vals = exp
            if tuple(got.shape) != shp:
                return fail("slice shape")
            for idx, e in zip(L.indices(shp), vals):
                if not same(got[idx], e):
                    return fail("slice element")
            return True
        if not same(got, exp):
            return fail("element")
        return True
    if kind == "to_array":
        full = arr.to_array()
        if tuple(full.shape) != ref.full:
            return fail("to_array shape")
        for idx in L.indices(ref.full):
            if not same(full[idx], ref.elem(idx)):
                return fail("to_array element")
        return True
    if kind == "to_array_nosplat":
        a = arr.to_array(splat_internal=False)
        if tuple(a.shape) != tuple(shape):
            return fail("to_array(splat_internal=False) shape")
        for idx in L.indices(shape):
            if idx in ref.data:
                if _is_masked(a[idx]):
                    return fail("nosplat masked")
                g = a[idx]
                for iidx in L.indices(internal):
                    if L.get(g, iidx) != L.get(ref.data[idx], iidx):
                        return fail("nosplat element")
            elif not _is_masked(a[idx]):
                return fail("nosplat unmasked")
        return True
    if kind == "mask":
        mk = arr.mask
        ml = arr.mask_linear()
        if tuple(mk.shape) != tuple(shape) or len(ml) != L.prod(shape):
            return fail("mask shape")
        for n, idx in enumerate(L.indices(shape)):
            missing = idx not in ref.data
            if bool(mk.data[idx]) != missing or bool(ml[n]) != missing:
                return fail("mask value")
        return True
    if kind == "index":
        size = L.prod(shape)
        if not (0 <= lin < size):
            return True
        idx = tuple(L.indices(shape))[lin]
        present = idx in ref.data
        if bool(arr.has_index(lin)) != present:
            return fail("has_index")
        if present:
            g = arr.get_from_index(lin)
            for iidx in L.indices(internal):
                if L.get(g, iidx) != L.get(ref.data[idx], iidx):
                    return fail("get_from_index")
        return True
    raise AssertionError(kind)


def ops(backend, shape, internal, mask, k0, kind, j0, j1, v0, v1, q0, q1, q2, slpos, lin, reopen, forms=None):
    """dump(k0, v0); dump((j0, j1)[:rank], v1); then one read operation compared with the reference."""
    L.reset()
    try:
        with NoTracing():
            from engine import shims

            shims.TOK.clear()
        j0, j1, q0, q1, q2, lin = (L.concretize(x, -4, 6) for x in (j0, j1, q0, q1, q2, lin))
        arr = _mk(backend, shape, internal, mask)
        ref = Ref(shape, internal, mask)
        k1 = (j0, j1)[: len(shape)]
        for step, (k, v) in enumerate(((k0, v0), (k1, v1))):
            if step == 1 and reopen == 2 and backend != "file":
                # persist between the two dumps (and again afterwards): the second persist must not be skipped
                d0 = L.scratch_dir()
                arr.folder = __import__("pathlib").Path(d0) / "sub"
                arr.persist()
            val = _value(v, internal)
            try:
                ref.dump(k, val)
                ok_ref = True
            except IndexError:
                ok_ref = False
            try:
                arr.dump(k, val)
                ok_arr = True
            except IndexError:
                ok_arr = False
            if ok_ref != ok_arr:
                return fail("dump accept/reject")
        if reopen:
            if backend == "file":
                arr = FileArray(arr.folder, shape, internal or None, mask if internal else None)
            else:
                if reopen != 2:
                    d = L.scratch_dir()
                    arr.folder = __import__("pathlib").Path(d) / "sub"
                arr.persist()
                arr = BACKENDS[backend](arr.folder, shape, internal or None, mask if internal else None)
        key = [q0, q1, q2][: len(mask)]
        if slpos and slpos <= len(key):
            key[slpos - 1] = slice(None)
        if forms is not None:
            # per axis: 0 = the integer q, otherwise a slice built from q (one element / empty, open ended, strided)
            for a in range(len(key)):
                fa = L.concretize(forms[a], 0, 5)
                q = key[a]
                if fa:
                    key[a] = [None, slice(None), slice(q, q + 1), slice(q, None), slice(None, None, 2), slice(None, q)][fa]
        return _read_cmp(arr, ref, kind, tuple(key), lin)
    finally:
        L.cleanup_dirs()


def none_value(backend, shape, j0, j1, reopen):
    """None is a value like any other: an element holding None is present (unmasked) everywhere"""
    L.reset()
    try:
        with NoTracing():
            from engine import shims

            shims.TOK.clear()
        j0, j1 = L.concretize(j0, 0, 3), L.concretize(j1, 0, 3)
        arr = _mk(backend, shape, (), tuple(True for _ in shape))
        key = (j0, j1)[: len(shape)]
        arr.dump(key, None)
        if reopen:
            if backend == "file":
                arr = FileArray(arr.folder, shape)
            else:
                d = L.scratch_dir()
                arr.folder = __import__("pathlib").Path(d) / "sub"
                arr.persist()
                arr = BACKENDS[backend](arr.folder, shape)
        lin = sum(k * s for k, s in zip(key, B.shape_to_strides(shape))) if False else list(L.indices(shape)).index(tuple(key))
        if not arr.has_index(lin) or arr.get_from_index(lin) is not None:
            return fail("has_index / get_from_index of a None element")
        if arr[key] is not None:
            return fail("__getitem__ of a None element")
        for a in (arr.to_array(), arr.to_array(splat_internal=False)):
            mk_ = np.ma.getmaskarray(a)
            for idx in L.indices(shape):
                if bool(mk_[idx]) != (idx != tuple(key)):
                    return fail("an element holding None is reported as missing by to_array")
        if bool(arr.mask.data[tuple(key)]) or arr.mask_linear()[lin]:
            return fail("mask of a None element")
        return True
    finally:
        L.cleanup_dirs()


def oob(backend, shape, internal, mask, axis, low, extra, v0):
    """a key that is out of range on one axis, or of wrong rank, raises IndexError (and nothing else)"""
    L.reset()
    try:
        with NoTracing():
            from engine import shims

            shims.TOK.clear()
        arr = _mk(backend, shape, internal, mask)
        arr.dump(tuple(0 for _ in shape), _value(v0, internal))
        full = _full_sizes(shape, internal, mask)
        key = [0] * len(full)
        if extra == 1:
            key = key[:-1]
        elif extra == 2:
            key = key + [0]
        else:
            key[axis] = (-full[axis] - 1) if low else full[axis]
        try:
            arr[tuple(key)]
        except IndexError:
            return True
        return fail("bad key accepted")
    finally:
        L.cleanup_dirs()


CANARIES = {}


def _canary_strides():
    import pipefunc.map._mapspec as M

    def bad(shape):
        out = []
        for i in range(len(shape)):
            p = 1
            for j in range(i + 1, len(shape)):
                p *= shape[j - 1] if j > i + 1 else shape[j]
            out.append(p)
        return tuple(out)

    M.shape_to_strides = bad
    B.shape_to_strides = bad


CANARIES["strides"] = _canary_strides

GEOMS_Q = [
    # (id, shape, internal, mask)
    ("e2", (2,), (), (True,)),
    ("e23", (2, 3), (), (True, True)),
    ("e2i2", (2,), (2,), (True, False)),
    ("i2e2", (2,), (2,), (False, True)),
    ("e2i2e3", (2, 3), (2,), (True, False, True)),
    ("e2e3i2", (2, 3), (2,), (True, True, False)),
    ("i2e2e3", (2, 3), (2,), (False, True, True)),
]
GEOMS_T = [
    ("e3i2i2", (3,), (2, 2), (True, False, False)),
    ("i2e3i2", (3,), (2, 2), (False, True, False)),
    ("e1i3", (1,), (3,), (True, False)),
    ("e3e3", (3, 3), (), (True, True)),
]


def obligations(tier):  # noqa: C901
    obs = []
    I = "int"
    # --- kernels -----------------------------------------------------------
    for rank in (1, 2, 3):
        for mask in itertools.product((True, False), repeat=rank):
            mid = "".join("e" if m else "i" for m in mask)
            obs.append(
                Ob(
                    f"nk_read_{mid}",
                    [("k0", I), ("k1", I), ("k2", I), ("n0", I), ("n1", I), ("n2", I), ("slpos", I)],
                    ["n0 >= 1 and n1 >= 1 and n2 >= 1", "0 <= slpos <= 3"],
                    f"H.nk({mask!r}, False, {rank}, k0, k1, k2, n0, n1, n2, slpos)",
                    timeout=60,
                    bounds=f"mask {mid} concrete; keys and axis sizes unbounded ints; one optional slice",
                    funcs=("normalize_key",),
                )
            )
            if any(mask):
                ne = sum(mask)
                # an internal axis before a mapped axis is the region of the recorded finding
                obs.append(
                    Ob(
                        f"nk_dump_{mid}",
                        [("k0", I), ("k1", I), ("k2", I), ("n0", I), ("n1", I), ("n2", I), ("slpos", I)],
                        ["n0 >= 1 and n1 >= 1 and n2 >= 1", "0 <= slpos <= 3"],
                        f"H.nk({mask!r}, True, {ne}, k0, k1, k2, n0, n1, n2, slpos)",
                        timeout=60,
                        bounds=f"for_dump=True, mask {mid}; keys and sizes unbounded",
                        funcs=("normalize_key",),
                    )
                )
    obs.append(
        Ob(
            "nk_wrong_rank",
            [("klen", I), ("k0", I), ("k1", I), ("k2", I), ("n0", I), ("n1", I), ("for_dump", "bool")],
            ["0 <= klen <= 3", "n0 >= 1 and n1 >= 1"],
            "H.nk((True, False), for_dump, klen, k0, k1, k2, n0, n1, 1, 0)",
            bounds="key length 0..3 against a rank-2 array",
        )
    )
    obs.append(
        Ob(
            "select_by_mask",
            [("m0", "bool"), ("m1", "bool"), ("m2", "bool")] + [(n, I) for n in ("a0", "a1", "a2", "b0", "b1", "b2")],
            [],
            "H.sbm(m0, m1, m2, a0, a1, a2, b0, b1, b2)",
        )
    )
    # --- operation sequences ------------------------------------------------
    thorough = tier == "thorough"
    geoms = GEOMS_Q + (GEOMS_T if thorough else [])
    backends = ["dict", "file"] + (["dict_sub"] if thorough else [])
    P = [("j0", I), ("j1", I), ("v0", I), ("v1", I), ("q0", I), ("q1", I), ("q2", I), ("lin", I)]
    Z = "q0 == 0 and q1 == 0 and q2 == 0"
    for be in backends:
        flags = ("tokpickle",)
        for gid, shape, internal, mask in geoms:
            full = _full_sizes(shape, internal, mask)
            size = L.prod(shape)
            k0 = tuple(0 for _ in shape)
            jpre = " and ".join(f"0 <= j{a} < {n}" for a, n in enumerate(shape))
            lo = (lambda n: -n - 1) if thorough else (lambda n: -1)
            hi = (lambda n: n) if thorough else (lambda n: n - 1)
            qpre = " and ".join(f"{lo(n)} <= q{a} <= {hi(n)}" for a, n in enumerate(full))
            qfix = " and ".join(f"q{a} == 0" for a in range(len(full), 3)) or "True"
            jfix = " and ".join(f"j{a} == 0" for a in range(len(shape), 2)) or "True"

            def mk(name, pre, kind, slpos, reopen, timeout, bounds, canaries=()):
                obs.append(
                    Ob(
                        f"ops_{be}_{gid}_{name}",
                        P,
                        pre,
                        f"H.ops({be!r}, {shape!r}, {internal!r}, {mask!r}, {k0!r}, {kind!r}, j0, j1, v0, v1, q0, q1, q2, {slpos}, lin, {reopen})",
                        timeout=timeout,
                        flags=flags,
                        bounds=f"{be} ext={shape} int={internal} mask={mask}; dump at {k0} then at a symbolic in-range key, values unbounded; " + bounds,
                        canaries=canaries,
                    )
                )

            for slpos in range(len(full) + 1):
                mk(
                    f"get_s{slpos}", [jpre, jfix, qpre, qfix, "lin == 0"], "get", slpos, False, 150 if not thorough else 900,
                    f"__getitem__ with symbolic key in [{lo(2)}..{hi(2)}]-style ranges per axis, slice(None) at position {slpos} (0 = none)",
                    canaries=("strides",) if (be == "file" and gid == "e23" and slpos == 0) else (),
                )  # fmt: skip
            if thorough or gid in ("e23", "e2i2e3"):
                jlast = " and ".join(f"j{a} == {n - 1}" for a, n in enumerate(shape))
                fmax = 5 if (len(full) <= 2 or thorough) else 2
                for f0 in range(6):
                    obs.append(
                        Ob(
                            f"ops_{be}_{gid}_slices{f0}",
                            P + [("f1", I), ("f2", I)],
                            [jlast, jfix, qpre, qfix, "lin == 0", " and ".join(f"0 <= f{a} <= {fmax}" for a in range(1, len(full))), " and ".join(f"f{a} == 0" for a in range(len(full), 3)) or "True"],
                            f"H.ops({be!r}, {shape!r}, {internal!r}, {mask!r}, {k0!r}, 'get', j0, j1, v0, v1, q0, q1, q2, 0, lin, False, ({f0}, f1, f2))",
                            timeout=300 if not thorough else 900,
                            flags=flags,
                            bounds=f"{be} ext={shape} int={internal} mask={mask}: __getitem__ where every axis is independently an int q or one of slice(None), slice(q, q+1) "
                            f"(one element or empty), slice(q, None), slice(None, None, 2), slice(None, q) with symbolic q (first axis form {f0}, other axes forms 0..{fmax}): shape and elements as NumPy",
                        )
                    )
            for kind in ("to_array", "to_array_nosplat", "mask"):
                mk(kind, [jpre, jfix, Z, "lin == 0"], kind, 0, False, 90, f"read = {kind}")
            mk("index", [jpre, jfix, Z, f"0 <= lin < {size}"], "index", 0, False, 90, "has_index/get_from_index at a symbolic linear index",
               canaries=("strides",) if (be == "file" and gid == "e23") else ())  # fmt: skip
            mk("reopen", [jpre, jfix, Z, "lin == 0"], "to_array", 0, True, 90, "persist (dict) / re-instantiate (file), then to_array")
            mk("reopen_mask", [jpre, jfix, Z, "lin == 0"], "mask", 0, True, 90, "persist/re-instantiate, then mask + mask_linear")
            if be != "file":
                mk("repersist", [jpre, jfix, Z, "lin == 0"], "to_array", 0, 2, 90, "dump, persist, dump (possibly the same key), persist, reopen, to_array")
            # negative / out-of-range dump keys
            npre = " and ".join(f"{-n - 1} <= j{a} <= {n}" for a, n in enumerate(shape))
            mk("dumpneg", [npre, jfix, Z, "lin == 0"], "to_array", 0, False, 90, "second dump key symbolic incl. negative and out-of-range by one")
            # out-of-range / wrong-rank reads
            obs.append(
                Ob(
                    f"ops_{be}_{gid}_oob",
                    [("axis", I), ("low", "bool"), ("extra", I), ("v0", I)],
                    [f"0 <= axis < {len(full)}", "0 <= extra <= 2"],
                    f"H.oob({be!r}, {shape!r}, {internal!r}, {mask!r}, axis, low, extra, v0)",
                    timeout=60,
                    flags=flags,
                    bounds="read key out of range by one on a symbolic axis (either side), or of rank -1/+1",
                )
            )
    for be in backends:
        for shape in ((2,), (2, 3)):
            obs.append(
                Ob(
                    f"none_{be}_{'x'.join(map(str, shape))}",
                    [("j0", I), ("j1", I), ("reopen", "bool")],
                    [" and ".join(f"0 <= j{a} < {n}" for a, n in enumerate(shape)) + (" and j1 == 0" if len(shape) == 1 else "")],
                    f"H.none_value({be!r}, {shape!r}, j0, j1, reopen)",
                    timeout=90,
                    flags=("tokpickle",),
                    bounds=f"{be} shape {shape}: an element whose value is None, optional persist/reopen",
                )
            )
    return obs

"""C11 - selecting outputs / supplying intermediates keeps values and runs only needed work."""
from __future__ import annotations

import itertools

import numpy as np

from engine.ob import Ob
from harness import lib as L
from harness import runt, tmpl
from harness.lib import NoTracing, fail
from harness.runt import R
from harness.tmpl import MAP_ARGS, MAP_PARAMS, T

WHY = L.WHY
OUTSIDE = "> 5 functions, non-minimal provided sets (surplus names), scopes, parallel maps"
ASSUMPTIONS = ["the requested set S and the provided set I are realised (case split over the listed candidates); values unbounded"]

VALS = [(f"v{i}", "int") for i in range(7)]
VARGS = ", ".join(n for n, _ in VALS)


def _sets(t):
    """candidate (S, I) pairs: S of size 1..2; I = every minimal set of names from which all of S is computable,
    plus each of those with one member removed (then usually not computable)"""
    outs = [o for fs in t for o in fs.outputs]
    names = runt.all_names(t)
    cands = []
    for r in (1, 2):
        for S in itertools.combinations(outs, r):
            pool = [n for n in names if n not in S]
            for k in range(len(pool) + 1):
                for I in itertools.combinations(pool, k):
                    st = status(t, S, I)
                    if st == "minimal" and I:
                        cands.append((S, I))
                        for drop in I:
                            J = tuple(x for x in I if x != drop)
                            if J and status(t, S, J) == "not_computable" and (S, J) not in cands:
                                cands.append((S, J))
    return cands


def status(t, S, I):
    used_all = set()
    for s in S:
        try:
            _, _, used, _ = runt.ref_eval(t, s, {n: 1 for n in I})
        except KeyError:
            return "not_computable"
        used_all |= used
    return "minimal" if used_all == set(I) else "surplus"


def needed(t, S, I):
    called = []
    for s in S:
        _, c, _, _ = runt.ref_eval(t, s, {n: 1 for n in I})
        for x in c:
            if x not in called:
                called.append(x)
    return called


def region(t, S, I):
    """'defaults': a needed function takes a defaulted, non-bound root parameter that is not provided.
    'inputfree': a needed function has no parameter that is provided or produced (nullary / all bound or defaulted)."""
    prod = runt.producers(t)
    byname = {fs.name: fs for fs in t}
    reg = set()
    need = needed(t, S, I)

    def depends_on_provided(fs, seen=()):
        for p in fs.params:
            if p in fs.bound:
                continue
            if p in I:
                return True
            if p in prod and any(o in I for o in prod[p][1].outputs):
                return True  # the producer *function node* of a provided name acts as an input node
            if p in prod and prod[p][1].name not in seen and depends_on_provided(prod[p][1], seen + (fs.name,)):
                return True
        return False

    for n in I:
        # a provided intermediate whose (cut-off) producer is itself downstream of another provided name
        if n in prod and prod[n][1].name not in need and depends_on_provided(prod[n][1]):
            reg.add("mixed")
    for fn in need:
        fs = byname[fn]
        live = [p for p in fs.params if p not in fs.bound and (p in I or p in prod)]
        if not live:
            reg.add("inputfree")
        for p in fs.params:
            if p in fs.defaults and p not in fs.bound and p not in I and p not in prod:
                reg.add("defaults")
    return reg


_CACHE: dict = {}


def cands_for(rid, which):
    key = (rid, which)
    if key not in _CACHE:
        with NoTracing():
            t = R[rid]
            allc = _sets(t)
            if which == "main":
                out = [(S, I) for S, I in allc if status(t, S, I) == "not_computable" or not region(t, S, I)]
            else:
                out = [(S, I) for S, I in allc if status(t, S, I) == "minimal" and which in region(t, S, I)]
            _CACHE[key] = out
    return _CACHE[key]


def sub(rid, which, ci, v0, v1, v2, v3, v4, v5, v6):
    """Pipeline.subpipeline(I, S): succeeds exactly when S is computable from I; values; only needed functions"""
    L.reset()
    t = R[rid]
    vals = (v0, v1, v2, v3, v4, v5, v6)
    cs = cands_for(rid, which)
    ci = L.concretize(ci, 0, len(cs) - 1)
    S, I = cs[ci]
    with NoTracing():
        log = []
        p = runt.make(t, log)
        runt.warm(p)
        nfun = len(p.functions)
    st = status(t, S, I)
    try:
        sp = p.subpipeline(set(I), set(S))
        ok = True
    except ValueError:
        ok = False
    if st == "not_computable":
        if ok and all(status(t, (s,), I) == "not_computable" for s in S):
            return fail("a request none of whose outputs is computable was not rejected")
        if ok:
            # the sub-pipeline may still be constructible; then every call for an output must fail
            for s in S:
                if status(t, (s,), I) != "not_computable":
                    continue
                try:
                    sp(s, **{n: v for n, v in zip(I, vals)})
                except Exception:  # noqa: BLE001
                    continue
                return fail("not computable, yet a value was returned")
        return True
    if not ok:
        return fail("computable request refused by subpipeline")
    if len(p.functions) != nfun:
        return fail("subpipeline changed the original pipeline")
    want = needed(t, S, I)
    have = sorted(f.__name__ for f in sp.functions)
    if have != sorted(want):
        return fail("subpipeline does not contain exactly the needed functions")
    kw = {n: v for n, v in zip(I, vals)}
    for s in S:
        exp, called, used, memo = runt.ref_eval(t, s, {n: kw[n] for n in kw})
        with NoTracing():
            del log[:]
        kws = {n: kw[n] for n in used}
        got = sp(s, **kws)
        if not (got == exp):
            return fail("subpipeline value differs from the full pipeline's")
        if not runt.needed_ok(t, called, list(log), set(kws)):
            return fail("functions run by the subpipeline are not exactly the needed ones")
    return True


# ------------------------------------------------------------------ map(output_names=...), auto_subpipeline
MAPSEL = {
    # tid: [(S, provided intermediates)]
    "T4": [(("r",), ()), (("s",), ()), (("t",), ()), (("y",), ()), (("t",), ("y",)), (("t",), ("r", "s")), (("r", "s"), ("y",))],
    "T5": [(("y",), ()), (("r",), ()), (("r",), ("y",))],
    "T8": [(("p",), ()), (("q",), ()), (("u", "v"), ()), (("p",), ("u",)), (("q",), ("u", "v"))],
    "T12": [(("r",), ()), (("z",), ()), (("s",), ()), (("s",), ("z",)), (("z",), ("r",)), (("s",), ("r",))],
    "T13": [(("d",), ()), (("y",), ()), (("y",), ("d",))],
    "T16": [(("d",), ()), (("y",), ()), (("y",), ("d",))],
    "TG": [(("z",), ()), (("x",), ()), (("y",), ()), (("z", "x"), ()), (("z",), ("y",)), (("x",), ("y",))],
}


def _needs(t, S, provided):
    """functions needed, root inputs needed (reference; defaults may be omitted)"""
    prod = {o: fs for fs in t.funcs for o in fs.outputs}
    need_f, roots = [], set()

    def visit(name):
        if name in provided:
            return
        if name not in prod:
            roots.add(name)
            return
        fs = prod[name]
        if fs.name in need_f:
            return
        need_f.append(fs.name)
        for p in fs.params:
            if p not in fs.bound:
                visit(p)

    for s in S:
        visit(s)
    return need_f, roots


def mapsel(tid, si, auto, drop_default, n0, n1, n2, *vals):
    """map(output_names=S) / map(auto_subpipeline=True) with provided intermediates"""
    L.reset()
    t = T[tid]
    n, v = tmpl.sizes_and_values(n0, n1, n2, vals)
    si = L.concretize(si, 0, len(MAPSEL[tid]) - 1)
    S, provided = MAPSEL[tid][si]
    try:
        with NoTracing():
            from engine import shims

            shims.TOK.clear()
            log = tmpl.Log()
            if tid == "TG":
                # the same pipeline, but its MapSpecs are generated: functions without MapSpec + add_mapspec_axis
                bare = [tmpl.FSpec(fs.name, fs.params, fs.outputs, None, fs.internal, fs.defaults, fs.bound) for fs in t.funcs]
                p = tmpl.make_pipeline(bare, log)
                p.add_mapspec_axis("a", axis="i")
                if sorted(p.mapspecs_as_strings) != sorted(["a[i] -> y[i]", "y[i] -> z[i]", "y[i] -> x[i]"]):
                    raise AssertionError(p.mapspecs_as_strings)
            else:
                p = tmpl.make_pipeline(t.funcs, log)
        full_inputs = t.inputs(n, v)
        ref, ncalls = tmpl.reference(t.funcs, full_inputs)
        need_f, roots = _needs(t, S, provided)
        inputs = {k: x for k, x in full_inputs.items() if k in roots}
        defaults = {p_: d for fs in t.funcs for p_, d in fs.defaults.items() if p_ not in fs.bound}
        if drop_default:
            inputs = {k: x for k, x in inputs.items() if k not in defaults}
        else:
            for k, d in defaults.items():  # defaulted roots given explicitly (omitting them: region of F20)
                if k in roots and k not in inputs:
                    inputs[k] = d
        for name in provided:
            val = ref[name]
            inputs[name] = np.array(val, dtype=object) if isinstance(val, list) else val
        # re-evaluate the reference with the provided intermediates substituted (they are equal here)
        kwargs = {"output_names": set(S)} if not auto else {"auto_subpipeline": True, "output_names": set(S)}
        if provided and not auto:
            kwargs["auto_subpipeline"] = True
        if drop_default:
            full2 = {k: x for k, x in full_inputs.items() if k not in defaults}
            ref, ncalls = tmpl.reference(t.funcs, full2)
        res = p.map(dict(inputs), storage="dict", parallel=False, **kwargs)
        for s in S:
            if s not in res:
                return fail("requested output missing")
        if not tmpl.compare_results(t.funcs, res, ref, names=set(S)):
            return False
        for fs in t.funcs:
            want = ncalls[fs.name] if fs.name in need_f else 0
            if log.count(fs.name) != want:
                return fail(f"{fs.name} ran {log.count(fs.name)} times, needed {want}")
        return True
    finally:
        L.cleanup_dirs()


def map_nullary(n0, v0, v1, v2):
    """map(output_names={'y'}) where y depends on a nullary function: computable from the given inputs"""
    L.reset()
    n0 = L.concretize(n0, 1, 2)
    funcs = [tmpl.FSpec("nul", [], ["k"]), tmpl.FSpec("f", ["a", "k"], ["y"], "a[i] -> y[i]"), tmpl.FSpec("g", ["y"], ["z"])]
    with NoTracing():
        log = tmpl.Log()
        p = tmpl.make_pipeline(funcs, log)
    inputs = {"a": [v0, v1, v2][:n0]}
    ref, ncalls = tmpl.reference(funcs, inputs)
    res = p.map(dict(inputs), storage="dict", parallel=False, output_names={"y"})
    if not tmpl.same_value(res["y"].output, ref["y"]):
        return fail("value")
    return log.count("g") == 0 or fail("unneeded function ran")


def map_reject(tid, which, n0, n1, n2, *vals):
    """S not computable from the inputs: map(output_names=S) raises before any user function runs"""
    L.reset()
    t = T[tid]
    n, v = tmpl.sizes_and_values(n0, n1, n2, vals)
    with NoTracing():
        log = tmpl.Log()
        p = tmpl.make_pipeline(t.funcs, log)
    inputs = t.inputs(n, v)
    which = L.concretize(which, 0, 3)
    drop = sorted(inputs)[which % len(inputs)]
    defaults = {p_ for fs in t.funcs for p_ in fs.defaults}
    if drop in defaults:
        return True
    del inputs[drop]
    leaf = t.funcs[-1].outputs[0]
    need_f, roots = _needs(t, (leaf,), ())
    if drop not in roots:
        return True
    try:
        p.map(dict(inputs), storage="dict", parallel=False, output_names={leaf})
    except Exception:  # noqa: BLE001
        return len(log) == 0 or fail("user code ran before the rejection")
    return fail("request with a missing input accepted")


CANARIES = {}


def _canary_keep_all():
    import pipefunc._pipeline._base as PB

    orig = PB._find_nodes_between

    def fnb(graph, input_nodes, output_nodes):
        nodes = orig(graph, input_nodes, output_nodes)
        if len(output_nodes) == 1 and len(nodes) >= 2:
            return set(n for n in graph.nodes if not isinstance(n, str))
        return nodes

    PB._find_nodes_between = fnb


CANARIES["subpipeline_keeps_unneeded_functions"] = _canary_keep_all


def obligations(tier):
    thorough = tier == "thorough"
    obs = []
    rids = ["R1", "R2", "R3", "R4", "R5", "R7", "R9", "R17"] + (["R8", "R6"] if thorough else [])
    for rid in rids:
        n = len(cands_for(rid, "main"))
        chunk = 30
        for lo in range(0, n, chunk):
            hi_ = min(n, lo + chunk)
            obs.append(
                Ob(
                    f"sub_{rid}" + (f"_{lo // chunk}" if n > chunk else ""),
                    [("ci", "int")] + VALS,
                    [f"{lo} <= ci < {hi_}"],
                    f"H.sub({rid!r}, 'main', ci, {VARGS})",
                    timeout=300,
                    bounds=f"{rid}: {n} (S, I) candidates: S of size 1..2, I every minimal computable set of provided names and each with one member "
                    "removed; values unbounded. Regions of the recorded findings (defaulted root omitted, input-free ancestor) excluded",
                    canaries=("subpipeline_keeps_unneeded_functions",) if (rid == "R2" and lo == 0) else (),
                )
            )
        for reg in ("defaults", "inputfree", "mixed"):
            m = len(cands_for(rid, reg))
            if m and (thorough or (rid, reg) in (("R3", "defaults"), ("R4", "inputfree"), ("R9", "inputfree"), ("R2", "mixed"), ("R7", "mixed"))):
                obs.append(
                    Ob(
                        f"sub_{rid}_{reg}",
                        [("ci", "int")] + VALS,
                        [f"0 <= ci < {m}"],
                        f"H.sub({rid!r}, {reg!r}, ci, {VARGS})",
                        timeout=200,
                        bounds=f"{rid}: {m} computable (S, I) pairs inside the region '{reg}' (known findings F20 defaults / F21 inputfree / F22 mixed)",
                    )
                )
    for tid, sel in MAPSEL.items():
        t = T[tid]
        for auto in (False, True):
            obs.append(
                Ob(
                    f"mapsel_{tid}_{'auto' if auto else 'names'}",
                    [("si", "int"), ("drop_default", "bool")] + MAP_PARAMS,
                    [f"0 <= si < {len(sel)}"] + tmpl.size_pre(t, 2) + ["not drop_default"],
                    f"H.mapsel({tid!r}, si, {auto}, drop_default, {MAP_ARGS})",
                    timeout=300,
                    bounds=f"{tid}: map(output_names=S{', auto_subpipeline=True' if auto else ''}) for {len(sel)} (S, provided intermediates) choices; sizes 1..2; "
                    "values unbounded; only the needed functions run, once per index",
                )
            )
        obs.append(
            Ob(
                f"mapreject_{tid}",
                [("which", "int")] + MAP_PARAMS,
                ["0 <= which <= 3"] + tmpl.size_pre(t, 2),
                f"H.map_reject({tid!r}, which, {MAP_ARGS})",
                timeout=200,
                bounds=f"{tid}: one needed input missing -> rejected before user code",
            )
        )
    obs.append(
        Ob(
            "mapsel_T16_defaults",
            [("si", "int"), ("drop_default", "bool")] + MAP_PARAMS,
            [f"0 <= si < {len(MAPSEL['T16'])}"] + tmpl.size_pre(T["T16"], 2) + ["drop_default"],
            f"H.mapsel('T16', si, False, drop_default, {MAP_ARGS})",
            timeout=200,
            bounds="T16: map(output_names=S) relying on a default for a root parameter (region of known finding F20)",
        )
    )
    obs.append(
        Ob("map_nullary", [("n0", "int"), ("v0", "int"), ("v1", "int"), ("v2", "int")], ["1 <= n0 <= 2"], "H.map_nullary(n0, v0, v1, v2)",
           bounds="map(output_names={'y'}) with a nullary ancestor (region of known finding F21)")  # fmt: skip
    )
    return obs

"""C08 - MapSpec parsing, printing, shapes and index maps are mutually consistent."""
from __future__ import annotations

from engine.ob import Ob
from harness import lib as L
from harness.lib import fail

import pipefunc.map._mapspec as M
from pipefunc.map._mapspec import ArraySpec, MapSpec

WHY = L.WHY
OUTSIDE = "more than 2 inputs / 2 outputs in the generated family, rank > 3, names outside the fixed pool; the string half is decided on structure (strings are concrete on each path)"
ASSUMPTIONS = ["structure choices (axis names, whitespace variants) are realised: the solver enumerates the structure, strings are concrete per path"]

IDX = ("i", "j", None)
NAMES_IN = ("a", "b1", "s.x")
NAMES_OUT = ("y", "_c")


# ------------------------------------------------------------------ reference (own representation)
def ref_unravel(shape, lin):
    key = []
    for n in reversed(shape):
        key.append(lin % n)
        lin = lin // n
    return tuple(reversed(key))


def ref_spec_str(inputs, outputs, ws=0):
    sep = [", ", ",", " ,  "][ws % 3]
    arrow = [" -> ", "->", "  ->  "][(ws // 3) % 3]
    pad = ["", " "][(ws // 9) % 2]

    def arr(name, axes):
        return f"{name}[{pad}{sep.join(':' if a is None else a for a in axes)}{pad}]"

    left = sep.join(arr(n, ax) for n, ax in inputs) if inputs else "..."
    return left + arrow + sep.join(arr(n, ax) for n, ax in outputs)


def ref_shape(inputs, outputs, in_shapes, internal):
    """(shape, mask) or raises ValueError"""
    for name, axes in inputs:
        if len(in_shapes[name]) != len(axes):
            raise ValueError("rank")
    shape, mask = [], []
    k = 0
    for ax in outputs[0][1]:
        dims = [in_shapes[name][axes.index(ax)] for name, axes in inputs if ax in axes]
        if dims:
            for d in dims[1:]:
                if d != dims[0]:
                    raise ValueError("zip")
            shape.append(dims[0])
            mask.append(True)
        else:
            if internal is None or k >= len(internal):
                raise ValueError("internal")
            shape.append(internal[k])
            mask.append(False)
            k += 1
    return tuple(shape), tuple(mask)


def _structure(ra, rb, c0, c1, c2, c3, swap, kpos, two_out):
    """family member from symbolic choices; None if the choice is not well-formed"""
    ch = [L.concretize(c, 0, 2) for c in (c0, c1, c2, c3)]
    axes_a = tuple(IDX[c] for c in ch[:ra])
    axes_b = tuple(IDX[c] for c in ch[2 : 2 + rb])
    for axes in (axes_a, axes_b):
        named = [a for a in axes if a is not None]
        if len(named) != len(set(named)):
            return None
    inputs = []
    if ra:
        inputs.append((NAMES_IN[0], axes_a))
    if rb:
        inputs.append((NAMES_IN[2] if ra == 2 else NAMES_IN[1], axes_b))
    used = [x for x in ("i", "j") if any(x in ax for _, ax in inputs)]
    if swap:
        used.reverse()
    out_axes = list(used)
    kpos = L.concretize(kpos, -1, 2)
    if kpos >= 0:
        if kpos > len(out_axes):
            return None
        out_axes.insert(kpos, "k")
    if not out_axes:
        return None
    outputs = [(NAMES_OUT[0], tuple(out_axes))]
    if two_out:
        outputs.append((NAMES_OUT[1], tuple(out_axes)))
    return inputs, outputs


def _equal_struct(m, inputs, outputs):
    if len(m.inputs) != len(inputs) or len(m.outputs) != len(outputs):
        return False
    for spec, (name, axes) in zip(m.inputs + m.outputs, inputs + outputs):
        if spec.name != name or tuple(spec.axes) != tuple(axes):
            return False
    return True


# ------------------------------------------------------------------ obligations
def strides(rank, n0, n1, n2, lin):
    """shape_to_strides / _shape_to_key: key in range, sum(key*stride) == lin, successor in row-major order"""
    L.reset()
    shape = (n0, n1, n2)[:rank]
    st = M.shape_to_strides(shape)
    if len(st) != rank or st[-1] != 1:
        return fail("strides")
    for a in range(rank - 1):
        if st[a] != st[a + 1] * shape[a + 1]:
            return fail("stride recurrence")
    key = M._shape_to_key(shape, lin)
    tot = 0
    for k, s, n in zip(key, st, shape):
        if not (0 <= k < n):
            return fail("key out of range")
        tot = tot + k * s
    if tot != lin:
        return fail("key does not denote the linear index")
    return True


def successor(rank, n0, n1, n2, lin):
    """key(lin + 1) is the row-major successor of key(lin): output_key visits every position once, in order"""
    L.reset()
    if rank == 3:  # nonlinear for z3 with three unbounded sizes: sizes 1..3 are case-split (thorough tier only; implied by strides_r3, which is unbounded), lin stays symbolic
        n0, n1, n2 = (L.concretize(x, 1, 3) for x in (n0, n1, n2))
    shape = (n0, n1, n2)[:rank]
    k0 = M._shape_to_key(shape, lin)
    k1 = M._shape_to_key(shape, lin + 1)
    exp = list(k0)
    a = rank - 1
    while a >= 0:
        if exp[a] + 1 < shape[a]:
            exp[a] = exp[a] + 1
            break
        exp[a] = 0
        a -= 1
    if a < 0:
        return True  # lin + 1 == size
    for x, y in zip(k1, exp):
        if x != y:
            return fail("successor")
    return True


def family(mode, ra, rb, c0, c1, c2, c3, swap, kpos, two_out, ws, sa0, sa1, sb0, sb1, nk, rename_sel):  # noqa: C901, PLR0911, PLR0912
    """one generated well-formed MapSpec: string round trip (mode str), shape and index maps (mode shape),
    rename and add_axes (mode rewrite)"""
    L.reset()
    st = _structure(ra, rb, c0, c1, c2, c3, swap, kpos, two_out)
    if st is None:
        return True
    inputs, outputs = st
    ws = L.concretize(ws, 0, 17)
    text = ref_spec_str(inputs, outputs, ws)
    m = MapSpec.from_string(text)
    if not _equal_struct(m, inputs, outputs):
        return fail("from_string does not denote the written spec")
    canon = str(m)
    if canon != ref_spec_str(inputs, outputs, 0):
        return fail("str() is not the canonical form")
    m2 = MapSpec.from_string(canon)
    if not (m2 == m) or str(m2) != canon or m.to_string() != canon:
        return fail("from_string(str(m)) != m")
    if mode == "str":
        return True
    # shapes
    sizes = [L.concretize(x, 1, 3) for x in (sa0, sa1, sb0, sb1)]
    nk = L.concretize(nk, 1, 2)
    in_shapes = {}
    if ra:
        in_shapes[inputs[0][0]] = tuple(sizes[:ra])
    if rb:
        in_shapes[inputs[-1][0]] = tuple(sizes[2 : 2 + rb])
    has_k = "k" in outputs[0][1]
    internal = (nk,) if has_k else None
    try:
        exp = ref_shape(inputs, outputs, in_shapes, internal)
        exp_ok = True
    except ValueError:
        exp_ok = False
    try:
        got = m.shape(dict(in_shapes), {outputs[0][0]: internal} if internal else None)
        got_ok = True
    except ValueError:
        got_ok = False
    if exp_ok != got_ok:
        return fail("shape accept/reject")
    if not exp_ok:
        return True
    if tuple(got[0]) != exp[0] or tuple(got[1]) != exp[1]:
        return fail("shape / mask")
    if has_k and mode == "shape":
        try:
            m.shape(dict(in_shapes), None)
            return fail("missing internal shape accepted")
        except ValueError:
            pass
    # index maps over all linear indices of the external shape
    ext_axes = [ax for ax, mk in zip(outputs[0][1], exp[1]) if mk]
    ext_shape = tuple(n for n, mk in zip(exp[0], exp[1]) if mk)
    size = L.prod(ext_shape)
    if tuple(m.external_indices) != tuple(ext_axes):
        return fail("external_indices")
    if inputs and mode == "shape":
        for lin in range(size):
            key = ref_unravel(ext_shape, lin)
            if tuple(m.output_key(ext_shape, lin)) != key:
                return fail("output_key")
            ik = m.input_keys(ext_shape, lin)
            if set(ik) != {n for n, _ in inputs}:
                return fail("input_keys names")
            for name, axes in inputs:
                want = tuple(slice(None) if ax is None else key[ext_axes.index(ax)] for ax in axes)
                if tuple(ik[name]) != want:
                    return fail("input_keys")
        try:
            m.input_keys(ext_shape + (1,), 0)
            return fail("input_keys accepted a shape of wrong rank")
        except ValueError:
            pass
    if mode == "shape":
        return True
    # rename
    rename_sel = L.concretize(rename_sel, 0, 2)
    old = (inputs + outputs)[rename_sel % len(inputs + outputs)][0]
    mr = m.rename({old: "zz"})
    ren = lambda lst: [("zz" if n == old else n, ax) for n, ax in lst]  # noqa: E731
    if not _equal_struct(mr, ren(inputs), ren(outputs)):
        return fail("rename")
    if not _equal_struct(m, inputs, outputs):
        return fail("rename mutated the original")
    if m.rename({"nope": "x"}) != m:
        return fail("rename of an absent name changed the spec")
    # add_axes
    ma = m.add_axes("q")
    add = lambda lst: [(n, ax + ("q",)) for n, ax in lst]  # noqa: E731
    if not _equal_struct(ma, add(inputs), add(outputs)):
        return fail("add_axes")
    if MapSpec.from_string(str(ma)) != ma:
        return fail("add_axes result does not round-trip")
    if inputs and size:
        lin = size * 2 - 1  # last element of the extended (.., 2) array
        ik = ma.input_keys(ext_shape + (2,), lin)
        key = ref_unravel(ext_shape, size - 1)
        for name, axes in inputs:
            want = tuple(slice(None) if ax is None else key[ext_axes.index(ax)] for ax in axes) + (1,)
            if tuple(ik[name]) != want:
                return fail("add_axes denotation")
    try:
        m.add_axes("i" if any("i" in ax for _, ax in inputs + outputs) else outputs[0][1][0])
        return fail("duplicate axis accepted by add_axes")
    except ValueError:
        pass
    return True


def keys_symbolic(which, n0, n1, n2, lin):
    """input_keys / output_key of fixed specs with unbounded symbolic shape and linear index"""
    L.reset()
    if which == 0:
        m = MapSpec.from_string("x[i, j], y[j, :, k] -> z[i, j, k]")
        shape = (n0, n1, n2)
        key = M._shape_to_key(shape, lin)
        ok = m.output_key(shape, lin)
        ik = m.input_keys(shape, lin)
        if tuple(ok) != tuple(key):
            return fail("output_key")
        if ik["x"] != (key[0], key[1]) or ik["y"] != (key[1], slice(None), key[2]):
            return fail("input_keys")
        return set(ik) == {"x", "y"}
    if which == 1:
        m = MapSpec.from_string("a[j], b[i] -> r[i, k, j]")
        shape = (n0, n1)
        key = M._shape_to_key(shape, lin)
        ik = m.input_keys(shape, lin)
        if ik["a"] != (key[1],) or ik["b"] != (key[0],):
            return fail("input_keys with an internal axis in between")
        return True
    m = MapSpec.from_string("a[:, i] -> r[i]")
    ik = m.input_keys((n0,), lin)
    return ik["a"] == (slice(None), M._shape_to_key((n0,), lin)[0]) or fail("input_keys ':'")


def shape_symbolic(sa0, sa1, sb0, nk, ranka, give_internal, short_internal):
    """MapSpec.shape with unbounded symbolic sizes: a[i, j], b[j] -> y[i, k, j]"""
    L.reset()
    m = MapSpec.from_string("a[i, j], b[j] -> y[i, k, j]")
    ranka = L.concretize(ranka, 1, 3)
    ashape = (sa0, sa1, 1)[:ranka]
    internal = None
    if give_internal:
        internal = () if short_internal else (nk,)
    try:
        got = m.shape({"a": ashape, "b": (sb0,)}, {"y": internal} if internal is not None else None)
        ok = True
    except ValueError:
        ok = False
    should = ranka == 2 and sa1 == sb0 and give_internal and not short_internal
    if ok != should:
        return fail("shape accept/reject")
    if ok and (tuple(got[0]) != (sa0, nk, sa1) or tuple(got[1]) != (True, False, True)):
        return fail("shape value")
    if ok:
        try:
            m.shape({"a": ashape}, {"y": internal})
            return fail("missing input accepted")
        except ValueError:
            pass
        try:
            m.shape({"a": ashape, "b": (sb0,), "c": (1,)}, {"y": internal})
            return fail("extra input accepted")
        except ValueError:
            pass
    return True


MALFORMED = {
    # must be rejected (ValueError) at construction
    "unused_input_index": ["a[i], b[j] -> y[i]", "a[i, j] -> y[j]", "a[k] -> y[i]"],
    "colon_in_first_output": ["a[i] -> y[i, :]", "a[i] -> y[:]"],
    "colon_in_second_output": ["a[i] -> y[i], z[i, :]", "a[i] -> y[i], z[:, i]"],
    "different_output_indices": ["a[i] -> y[i], z[j]", "a[i], b[j] -> y[i, j], z[j, i]", "a[i] -> y[i], z[i, k]"],
    "non_identifier": ["1a[i] -> y[i]", "a[i] -> 2y[i]", "a[1] -> y[1]", "a[i-1] -> y[i-1]", "a.1[i] -> y[i]"],
    "no_arrow": ["a[i], y[i]", "a[i] => y[i]", "a[i] -> y[i] -> z[i]"],
    "no_brackets": ["a -> y", "a[i] -> y"],
}
LENIENT = {
    # text that is not part of any array is silently dropped (recorded finding F15)
    "space_before_bracket": [" a [ i ] -> b[i]"],
    "three_part_name": ["a.x.z[i] -> y[i]"],
    "stray_text": ["a b[i] -> y[i]", "a[i] b[i] garbage -> y[i]"],
}


def malformed(group, sel, table):
    L.reset()
    texts = (MALFORMED if table == 0 else LENIENT)[group]
    sel = L.concretize(sel, 0, len(texts) - 1)
    text = texts[sel]
    try:
        m = MapSpec.from_string(text)
    except ValueError:
        return True
    if table == 1:
        # accepted: then it must at least denote what was written (every name present)
        import re

        written = re.findall(r"[A-Za-z_][\w.]*(?=\s*\[)", text)
        have = [s.name for s in m.inputs + m.outputs]
        if have != written:
            return fail("accepted, but arrays were silently dropped or altered")
        return True
    return fail("malformed spec accepted")


def direct_ctor(sel):
    """malformed specs given as objects (not strings) are rejected too"""
    L.reset()
    sel = L.concretize(sel, 0, 4)
    A = ArraySpec
    try:
        if sel == 0:
            MapSpec((A("a", ("i",)),), (A("y", ("i", None)),))
        elif sel == 1:
            MapSpec((A("a", ("i",)),), (A("y", ("i",)), A("z", (None,))))
        elif sel == 2:
            MapSpec((A("a", ("i", "j")),), (A("y", ("i",)),))
        elif sel == 3:
            A("a b", ("i",))
        else:
            A("a", ("i j",))
    except ValueError:
        return True
    return fail("malformed spec object accepted")


CANARIES = {}


def _canary_key_order():
    def bad(shape, linear_index):
        st = M.shape_to_strides(shape)
        key = [(linear_index // s) % d for s, d in zip(st, shape)]
        if len(shape) == 3:
            key[0], key[1] = (key[0], key[1]) if shape[0] != shape[1] else (key[1], key[0])
        return tuple(key)

    M._shape_to_key = bad


CANARIES["key_swap_square"] = _canary_key_order


def obligations(tier):
    I, Bo = "int", "bool"
    thorough = tier == "thorough"
    obs = []
    for rank in (1, 2, 3):
        P = [("n0", I), ("n1", I), ("n2", I), ("lin", I)]
        size = " * ".join(f"n{a}" for a in range(rank))
        pre = ["n0 >= 1 and n1 >= 1 and n2 >= 1", f"0 <= lin < {size}"]
        obs.append(Ob(f"strides_r{rank}", P, pre, f"H.strides({rank}, n0, n1, n2, lin)", timeout=120, bounds=f"rank {rank}, sizes and linear index unbounded",
                      canaries=("key_swap_square",) if rank == 3 else ()))  # fmt: skip
        if rank < 3:
          obs.append(Ob(f"successor_r{rank}", P, pre, f"H.successor({rank}, n0, n1, n2, lin)", timeout=180 if rank < 3 else 900, bounds=f"rank {rank}, sizes and linear index unbounded",
                      canaries=()))  # fmt: skip
    FP = [("c0", I), ("c1", I), ("c2", I), ("c3", I), ("swap", Bo), ("kpos", I), ("two_out", Bo), ("ws", I),
          ("sa0", I), ("sa1", I), ("sb0", I), ("sb1", I), ("nk", I), ("rename_sel", I)]  # fmt: skip
    fams = [(1, 0), (2, 0), (1, 1), (2, 1), (0, 0)] + ([(2, 2)] if thorough else [])
    hi = 3 if thorough else 2
    for ra, rb in fams:
        cpre = [f"0 <= c{n} <= 2" if used else f"c{n} == 0" for n, used in enumerate([ra >= 1, ra >= 2, rb >= 1, rb >= 2])]
        sfix = ["sa0 == 2 and sa1 == 2 and sb0 == 2 and sb1 == 2 and nk == 2"]
        spre = [f"1 <= s{x} <= {hi}" if used else f"s{x} == 1" for x, used in (("a0", ra >= 1), ("a1", ra >= 2), ("b0", rb >= 1), ("b1", rb >= 2))]
        call = "c0, c1, c2, c3, swap, kpos, two_out, ws, sa0, sa1, sb0, sb1, nk, rename_sel"
        if ra + rb >= 3 and not thorough:
            cpre = cpre + ["kpos in (-1, 1)", "ws <= 2"]
        if ra + rb >= 4:
            cpre = cpre + ["kpos in (-1, 1)", "ws <= 3", "sa0 <= 2 and sa1 <= 2 and sb0 <= 2 and sb1 <= 2"]
        elif ra + rb == 3 and thorough:
            cpre = cpre + ["ws <= 5", "sa0 <= 2 and sa1 <= 2 and sb0 <= 3"]
        obs.append(
            Ob(
                f"family_{ra}_{rb}_str", FP,
                cpre + sfix + ["-1 <= kpos <= 2", f"0 <= ws <= {8 if thorough else 5}", "rename_sel == 0"],
                f"H.family('str', {ra}, {rb}, {call})", timeout=300 if not thorough else 1500,
                bounds=f"inputs of rank {ra} and {rb}; per axis a choice of i / j / ':'; output order, internal axis position, 1-2 outputs, "
                "whitespace variants: from_string denotes the written spec, str() canonical, from_string(str(m)) == m",
            )  # fmt: skip
        )
        obs.append(
            Ob(
                f"family_{ra}_{rb}_shape", FP,
                cpre + spre + ["-1 <= kpos <= 2", "ws == 0 and not two_out and rename_sel == 0", f"1 <= nk <= {2 if thorough else 1}"],
                f"H.family('shape', {ra}, {rb}, {call})", timeout=300 if not thorough else 1500,
                bounds=f"same structures, sizes 1..{hi}: shape()/mask or ValueError (rank, zip, internal), output_key and input_keys over all linear indices",
            )  # fmt: skip
        )
        obs.append(
            Ob(
                f"family_{ra}_{rb}_rewrite", FP,
                cpre + sfix + ["-1 <= kpos <= 2", "ws == 0", "0 <= rename_sel <= 2"] + ([] if thorough else ["not two_out"]),
                f"H.family('rewrite', {ra}, {rb}, {call})", timeout=300 if not thorough else 1500,
                bounds="same structures, sizes 2: rename (each array in turn, absent name), add_axes (structure, round trip, denotation, duplicate axis)",
            )  # fmt: skip
        )
    for which in (0, 1, 2):
        obs.append(
            Ob(
                f"keys_symbolic_{which}",
                [("n0", I), ("n1", I), ("n2", I), ("lin", I)],
                ["n0 >= 1 and n1 >= 1 and n2 >= 1", "lin >= 0"],
                f"H.keys_symbolic({which}, n0, n1, n2, lin)",
                timeout=120,
                bounds="fixed spec, unbounded sizes and linear index",
            )
        )
    obs.append(
        Ob(
            "shape_symbolic",
            [("sa0", I), ("sa1", I), ("sb0", I), ("nk", I), ("ranka", I), ("give_internal", Bo), ("short_internal", Bo)],
            ["sa0 >= 1 and sa1 >= 1 and sb0 >= 1 and nk >= 1", "1 <= ranka <= 3"],
            "H.shape_symbolic(sa0, sa1, sb0, nk, ranka, give_internal, short_internal)",
            bounds="a[i, j], b[j] -> y[i, k, j] with unbounded sizes; rank / zip / internal-shape faults",
        )
    )
    for table, groups in ((0, MALFORMED), (1, LENIENT)):
        for g, texts in groups.items():
            obs.append(
                Ob(
                    f"{'malformed' if table == 0 else 'lenient'}_{g}",
                    [("sel", I)],
                    [f"0 <= sel <= {len(texts) - 1}"],
                    f"H.malformed({g!r}, sel, {table})",
                    bounds="; ".join(texts),
                )
            )
    obs.append(Ob("direct_ctor", [("sel", I)], ["0 <= sel <= 4"], "H.direct_ctor(sel)", bounds="malformed MapSpec / ArraySpec objects"))
    return obs

"""MAP-T templates: declared function tables -> real pipelines with distinguishing linear forms,
plus an independent denotational evaluator of the MapSpec notation (own parser, nested lists,
no pipefunc mechanism is used on the reference side).  DESIGN sections 4.3 and 6.
"""
from __future__ import annotations

import itertools
import re

import numpy as np

from harness import lib as L
from harness.lib import NoTracing, build, fail, get, shape_of

PRIMES = [3, 5, 7, 11, 13, 17, 19, 23, 29, 31, 37, 41, 43, 47, 53, 59, 61, 67, 71, 73, 79, 83, 89, 97]


# ---------- own tiny spec parser (independent of pipefunc.map._mapspec) ----------
def parse_side(s):
    s = s.strip()
    if s == "...":
        return []
    out = []
    for m in re.finditer(r"([A-Za-z_][\w.]*)\[([^\]]*)\]", s):
        axes = tuple(None if a.strip() == ":" else a.strip() for a in m.group(2).split(","))
        out.append((m.group(1), axes))
    return out


def parse_spec(s):
    left, right = s.split("->")
    return parse_side(left), parse_side(right)


def select(x, key):  # key: tuple of int | None(=full slice)
    if not key:
        return x
    k, rest = key[0], key[1:]
    if k is None:
        return [select(e, rest) for e in x]
    return select(x[k], rest)


def fold(x, w):
    """weighted fold of a nested list / scalar into a scalar linear form (position-sensitive)"""
    if not isinstance(x, list):
        return -7 if x is None else x
    tot = 0
    n = 0
    stack = [x]
    flat = []

    def rec(y):
        if isinstance(y, list):
            for e in y:
                rec(e)
        else:
            flat.append(y)

    rec(x)
    for n, y in enumerate(flat):
        tot = tot + ((n + 1) * w + 1) * (-7 if y is None else y)
    return tot + 1000003 * len(flat)


def tolist(x):
    """what a user function sees (ndarray / masked array / list / scalar) -> nested lists"""
    if isinstance(x, np.ndarray):
        if x.ndim == 0:
            return x.item()
        return [tolist(e) for e in x]
    if isinstance(x, (list, tuple)):
        return [tolist(e) for e in x]
    return x


class FSpec:
    def __init__(self, name, params, outputs, mapspec=None, internal=None, defaults=None, bound=None, none_when_zero=False):
        self.name, self.params, self.outputs = name, list(params), list(outputs)
        self.mapspec, self.internal = mapspec, internal
        self.defaults, self.bound = dict(defaults or {}), dict(bound or {})
        self.none_when_zero = none_when_zero  # the function returns None when its first argument is 0 (None is a value like any other)


def form(fi, oi, args):
    """distinguishing linear form for output oi of function fi"""
    tot = 1000 * (fi + 1) + 100 * oi
    for pi, a in enumerate(args):
        tot = tot + PRIMES[(fi * 5 + pi + oi * 3) % len(PRIMES)] * fold(a, pi + 2)
    return tot


def _outputs_of(fi, fs, args):
    if fs.none_when_zero and not isinstance(args[0], list) and args[0] == 0:
        return [None for _ in fs.outputs]
    outs = []
    for oi in range(len(fs.outputs)):
        base = form(fi, oi, args)
        if fs.internal:
            outs.append(build(fs.internal, lambda idx, base=base: base + sum((d + 1) * 7 ** (k + 1) for k, d in enumerate(idx))))
        else:
            outs.append(base)
    return outs


class Log(list):
    """call log: (function name, tuple of leaf values is NOT stored - only the name and a serial)"""

    def count(self, name):  # type: ignore[override]
        return sum(1 for n in self if n == name)


def make_functions(template, log, fail_at=None):
    from pipefunc import PipeFunc

    funcs = []
    for fi, fs in enumerate(template):

        def body(*args, _fi=fi, _fs=fs):
            with NoTracing():
                log.append(_fs.name)
                nth = len(log)
            if fail_at is not None:
                fail_at(_fs.name, nth, args)
            args = [tolist(a) for a in args]
            outs = _outputs_of(_fi, _fs, args)
            return tuple(outs) if len(outs) > 1 else outs[0]

        # parameters with defaults must come last in a Python signature; default values are passed
        # through the namespace (they may be symbolic)
        ordered = [p for p in fs.params if p not in fs.defaults] + [p for p in fs.params if p in fs.defaults]
        sig = ", ".join(f"{p}=_dflt_{p}" if p in fs.defaults else p for p in ordered)
        ns = {"_body": body}
        for p_, d_ in fs.defaults.items():
            ns[f"_dflt_{p_}"] = d_
        exec(f"def {fs.name}({sig}):\n    return _body({', '.join(fs.params)})\n", ns)  # noqa: S102
        on = tuple(fs.outputs) if len(fs.outputs) > 1 else fs.outputs[0]
        funcs.append(PipeFunc(ns[fs.name], on, mapspec=fs.mapspec, internal_shape=fs.internal, bound=dict(fs.bound) or None))
    return funcs


def make_pipeline(template, log, fail_at=None, **kw):
    from pipefunc import Pipeline

    return Pipeline(make_functions(template, log, fail_at), **kw)


def reference(template, inputs):
    """denotational semantics of the statement of C01, on nested lists.
    Returns (env, ncalls): every named value, and the number of calls of every function."""
    env = {k: tolist(v) for k, v in inputs.items()}
    ncalls = {}
    for fi, fs in enumerate(template):  # templates are listed in dependency order

        def arg(p, fs=fs):
            if p in fs.bound:
                return fs.bound[p]
            if p in env:
                return env[p]
            return fs.defaults[p]

        ins, outs_spec = parse_spec(fs.mapspec) if fs.mapspec else ([], [])
        if not ins:
            outs = _outputs_of(fi, fs, [arg(p) for p in fs.params])
            ncalls[fs.name] = 1
            for o, v in zip(fs.outputs, outs):
                env[o] = v
            continue
        out_axes = outs_spec[0][1]
        size = {}
        for name, axes in ins:
            sh = shape_of(arg(name))
            for ax, n in zip(axes, sh):
                if ax is not None:
                    size[ax] = n
        ext = [ax for ax in out_axes if ax in size]
        results = {}
        for idx in itertools.product(*[range(size[a]) for a in ext]):
            bind = dict(zip(ext, idx))
            args = []
            for p in fs.params:
                spec = [axes for name, axes in ins if name == p]
                if spec:
                    args.append(select(arg(p), tuple(None if a is None else bind[a] for a in spec[0])))
                else:
                    args.append(arg(p))
            results[idx] = _outputs_of(fi, fs, args)
        ncalls[fs.name] = len(results)
        for oi, o in enumerate(fs.outputs):

            def at(full, oi=oi):
                bind_e = tuple(i for i, a in zip(full, out_axes) if a in size)
                int_i = tuple(i for i, a in zip(full, out_axes) if a not in size)
                v = results[bind_e][oi]
                return get(v, int_i) if int_i else v

            full_shape = []
            k = 0
            for a in out_axes:
                if a in size:
                    full_shape.append(size[a])
                else:
                    full_shape.append(fs.internal[k])
                    k += 1
            env[o] = build(tuple(full_shape), at)
    return env, ncalls


def mapped_outputs(template):
    return {o for fs in template if fs.mapspec for o in fs.outputs}


def same_value(got, exp) -> bool:
    """compare what pipefunc returned (ndarray / list / scalar) with a reference nested list"""
    if isinstance(exp, list):
        sh = shape_of(exp)
        if isinstance(got, np.ndarray):
            gsh = tuple(got.shape)
        else:
            gsh = shape_of(tolist(got))
        if gsh != sh:
            return False
        for idx in itertools.product(*[range(n) for n in sh]):
            g = got[idx] if isinstance(got, np.ndarray) else get(got, idx)
            if g is np.ma.masked:
                return False
            e = get(exp, idx)
            if e is None or g is None:
                if not (e is None and g is None):
                    return False
            elif not (g == e):
                return False
        return True
    if got is np.ma.masked:
        return False
    return bool(got == exp)


def compare_results(template, res, ref, names=None):
    for fs in template:
        for o in fs.outputs:
            if names is not None and o not in names:
                continue
            if o not in res:
                return fail(f"output {o} missing from the results")
            if not same_value(res[o].output, ref[o]):
                return fail(f"output {o} differs from the MapSpec denotation")
    return True


def compare_calls(template, log, ncalls, names=None):
    for fs in template:
        if names is not None and fs.name not in names:
            continue
        if log.count(fs.name) != ncalls[fs.name]:
            return fail(f"{fs.name} called {log.count(fs.name)} times, expected {ncalls[fs.name]}")
    return True


# ---------------------------------------------------------------------------------------------
# templates.  `inputs(n, v)` builds the input dict from axis sizes n[0..2] and values v[0..11].
# ---------------------------------------------------------------------------------------------
def _lst(vals, start, n):
    return list(vals[start : start + n])


def _arr2(vals, start, n0, n1):
    a = np.empty((n0, n1), dtype=object)
    k = start
    for i in range(n0):
        for j in range(n1):
            a[i, j] = vals[k % len(vals)] + (k // len(vals)) * 1000
            k += 1
    return a


def _arr1(vals, start, n):
    a = np.empty((n,), dtype=object)
    for i in range(n):
        a[i] = vals[start + i]
    return a


class Template:
    def __init__(self, tid, funcs, inputs, axes=1, doc="", internal_shapes=None):
        self.tid, self.funcs, self.inputs, self.axes, self.doc = tid, funcs, inputs, axes, doc
        self.internal_shapes = internal_shapes


T = {}


def _t(tid, funcs, inputs, axes=1, doc=""):
    T[tid] = Template(tid, funcs, inputs, axes, doc)


_t("T1", [FSpec("f", ["x"], ["y"], "x[i] -> y[i]")], lambda n, v: {"x": _lst(v, 0, n[0])}, 1, "element-wise map")
_t("TN", [FSpec("f", ["x"], ["y"], "x[i] -> y[i]", none_when_zero=True), FSpec("g", ["y"], ["z"], "y[i] -> z[i]", none_when_zero=True)],
   lambda n, v: {"x": _lst(v, 0, n[0])}, 1, "functions that return None for some elements (None is a value)")
_t("T2", [FSpec("f", ["a", "b"], ["y"], "a[i], b[i] -> y[i]")], lambda n, v: {"a": _lst(v, 0, n[0]), "b": _lst(v, 3, n[0])}, 1, "zip")
_t("T3", [FSpec("f", ["a", "b"], ["y"], "a[i], b[j] -> y[i, j]")], lambda n, v: {"a": _lst(v, 0, n[0]), "b": _lst(v, 3, n[1])}, 2, "outer product")
_t(
    "T4",
    [
        FSpec("f", ["a", "b"], ["y"], "a[i], b[j] -> y[i, j]"),
        FSpec("g", ["y"], ["r"], "y[i, :] -> r[i]"),
        FSpec("h", ["y"], ["s"], "y[:, j] -> s[j]"),
        FSpec("n", ["r", "s"], ["t"]),
    ],
    lambda n, v: {"a": _lst(v, 0, n[0]), "b": _lst(v, 3, n[1])},
    2,
    "outer product, both partial reductions, a no-MapSpec consumer",
)
_t(
    "T5",
    [FSpec("f", ["a", "b"], ["y"], "a[i], b[j] -> y[i, j]"), FSpec("tot", ["y", "c"], ["r"])],
    lambda n, v: {"a": _lst(v, 0, n[0]), "b": _lst(v, 3, n[1]), "c": v[6]},
    2,
    "outer product + full reduction by a function without MapSpec",
)
_t(
    "T6",
    [FSpec("gen", ["m"], ["v"], "... -> v[j]", internal=(3,)), FSpec("use", ["v", "a"], ["w"], "v[j], a[i] -> w[i, j]")],
    lambda n, v: {"a": _lst(v, 0, n[0]), "m": v[6]},
    1,
    "generator '... -> v[j]' with an internal shape + consumer",
)
_t(
    "T7",
    [FSpec("f", ["a"], ["y"], "a[i] -> y[i, k]", internal=(2,)), FSpec("g", ["y"], ["w"], "y[i, k] -> w[k, i]")],
    lambda n, v: {"a": _lst(v, 0, n[0])},
    1,
    "internal axis trailing; consumer transposes",
)
_t(
    "T7p",
    [FSpec("f", ["a"], ["y"], "a[i] -> y[k, i]", internal=(2,)), FSpec("g", ["y"], ["w"], "y[k, i] -> w[i, k]")],
    lambda n, v: {"a": _lst(v, 0, n[0])},
    1,
    "internal axis leading",
)
_t(
    "T8",
    [
        FSpec("f", ["a", "c"], ["u", "v"], "a[i] -> u[i], v[i]"),
        FSpec("g", ["u"], ["p"], "u[i] -> p[i]"),
        FSpec("h", ["v", "u"], ["q"]),
    ],
    lambda n, v: {"a": _lst(v, 0, n[0]), "c": v[6]},
    1,
    "tuple output, separate consumers, unlisted parameter c delivered whole",
)
_t(
    "T8p",
    [FSpec("f", ["c"], ["u", "v"], internal=(2,)), FSpec("g", ["u", "a"], ["w"], "u[:], a[i] -> w[i]")],
    lambda n, v: {"a": _lst(v, 0, n[0]), "c": v[6]},
    1,
    "tuple-output producer WITHOUT MapSpec one of whose outputs is consumed as u[:]",
)
_t(
    "T9",
    [FSpec("f", ["m"], ["t"], "m[i, j] -> t[j, i]")],
    lambda n, v: {"m": _arr2(v, 0, n[0], n[1])},
    2,
    "2-D ndarray input with transposed output",
)
_t(
    "T10",
    [FSpec("f", ["a", "b", "c"], ["y"], "a[i], b[j], c[k] -> y[i, j, k]"), FSpec("g", ["y"], ["r"], "y[i, :, k] -> r[i, k]")],
    lambda n, v: {"a": _lst(v, 0, n[0]), "b": _lst(v, 3, n[1]), "c": _lst(v, 6, n[2])},
    3,
    "rank-3 outer product + reduction of the middle axis",
)
_t(
    "T11",
    [FSpec("f", ["a", "w"], ["y"], "a[i] -> y[i]")],
    lambda n, v: {"a": _lst(v, 0, n[0]), "w": _lst(v, 3, n[1])},
    2,
    "unlisted list parameter delivered whole",
)
_t(
    "T12",
    [
        FSpec("f", ["a", "b"], ["y"], "a[i], b[j] -> y[i, j]"),
        FSpec("g", ["y"], ["r"], "y[i, :] -> r[i]"),
        FSpec("h", ["r", "c"], ["z"], "r[i], c[j] -> z[i, j]"),
        FSpec("k", ["z"], ["s"], "z[:, j] -> s[j]"),
    ],
    lambda n, v: {"a": _lst(v, 0, n[0]), "b": _lst(v, 3, n[1]), "c": _lst(v, 6, n[1])},
    2,
    "re-used axis names and double map-reduce",
)
_t(
    "T13",
    [FSpec("pre", ["c"], ["d"]), FSpec("f", ["a", "d"], ["y"], "a[i] -> y[i]")],
    lambda n, v: {"a": _lst(v, 0, n[0]), "c": v[6]},
    1,
    "a no-MapSpec function upstream of a map",
)
_t(
    "T14",
    [FSpec("f", ["m", "b"], ["y"], "m[i, j], b[j] -> y[i, j]")],
    lambda n, v: {"m": _arr2(v, 0, n[0], n[1]), "b": _arr1(v, 6, n[1])},
    2,
    "mixed-rank zip with ndarray inputs",
)
_t(
    "T15",
    [
        FSpec("f", ["a", "b"], ["u", "v"], "a[i], b[j] -> u[i, k, j], v[i, k, j]", internal=(2,)),
        FSpec("g", ["u", "v"], ["w"], "u[i, :, :], v[i, :, j] -> w[i, j]"),
    ],
    lambda n, v: {"a": _lst(v, 0, n[0]), "b": _lst(v, 3, n[1])},
    2,
    "tuple output with an internal axis in the middle, two-axis partial reduction",
)
_t(
    "T16",
    [
        FSpec("pre", ["c", "e"], ["d"], defaults={"e": 5}),
        FSpec("f", ["a", "d", "p", "q"], ["y"], "a[i] -> y[i]", defaults={"p": 7, "q": 9}, bound={"q": 11}),
    ],
    lambda n, v: {"a": _lst(v, 0, n[0]), "c": v[6], "p": v[7]},
    1,
    "non-mapped parameters bound / defaulted / supplied: bound > input > upstream output > default",
)
_t(
    "T17",
    [
        FSpec("f", ["a"], ["y"], "a[i] -> y[i]"),
        FSpec("g", ["a"], ["z"], "a[i] -> z[i]"),
        FSpec("h", ["a", "c"], ["x"], "a[i] -> x[i]"),
        FSpec("m", ["y", "z", "x"], ["r"]),
    ],
    lambda n, v: {"a": _lst(v, 0, n[0]), "c": v[6]},
    1,
    "three functions in one generation feeding a reduction (schedules)",
)
_t(
    "T23",
    [FSpec("cs", ["x"], ["colsum"], "x[:, j] -> colsum[j]"), FSpec("e", ["x"], ["ee"], "x[i, j] -> ee[i, j]")],
    lambda n, v: {"x": _arr2(v, 0, n[0], n[1])},
    2,
    "2-D root array with two consumers: the first leaves the leading axis unnamed (column reduction), the second names both",
)
_t(
    "T24",
    [
        FSpec("f", ["a", "b"], ["y"], "a[i], b[j] -> y[i, j]"),
        FSpec("g", ["y"], ["r"], "y[i, :] -> r[i]"),
        FSpec("h", ["y"], ["s"], "y[:, j] -> s[j]"),
    ],
    lambda n, v: {"a": _lst(v, 0, n[0]), "b": _lst(v, 3, n[1])},
    2,
    "one array partially reduced along different axes by two consumers (no full reduction downstream)",
)
_t(
    "TN3",
    [FSpec("pre", ["c"], ["d"], none_when_zero=True), FSpec("f", ["a", "d"], ["y"], "a[i] -> y[i]"), FSpec("tot", ["y", "d"], ["r"])],
    lambda n, v: {"a": _lst(v, 0, n[0]), "c": v[6]},
    1,
    "a function without MapSpec whose result is None for c == 0 (None is a stored value like any other), consumed by a map and a reduction",
)
_t(
    "TG",
    [
        FSpec("f", ["a", "c"], ["y"], "a[i] -> y[i]"),
        FSpec("g", ["y"], ["z"], "y[i] -> z[i]"),
        FSpec("h", ["y", "w"], ["x"], "y[i] -> x[i]"),
    ],
    lambda n, v: {"a": _lst(v, 0, n[0]), "c": v[6], "w": v[7]},
    1,
    "element-wise chain with a fork; in C11 the MapSpecs are not written by hand but generated by add_mapspec_axis('a', axis='i')",
)
_t(
    "T22",
    [
        FSpec("f", ["a", "c"], ["lo", "mid", "hi"], "a[i] -> lo[i], mid[i], hi[i]"),
        FSpec("g", ["mid", "hi"], ["w"], "mid[i], hi[i] -> w[i]"),
        FSpec("tot", ["lo", "w"], ["r"]),
    ],
    lambda n, v: {"a": _lst(v, 0, n[0]), "c": v[6]},
    1,
    "three-output function (tuple key of three names), zip of two of them, reduction",
)

_t(
    "T18",
    [FSpec("f", ["a"], ["y"], "a[i] -> y[i]"), FSpec("g", ["y", "w"], ["z"], "w[k] -> z[k]")],
    lambda n, v: {"a": _lst(v, 0, n[0]), "w": _lst(v, 3, n[1])},
    2,
    "a mapped consumer that takes the mapped array y whole (unlisted) while mapping over another axis",
)

_t(
    "T19",
    [FSpec("f", ["a"], ["y"], "a[i] -> y[k, i]", internal=(2,)), FSpec("tot", ["y", "c"], ["r"])],
    lambda n, v: {"a": _lst(v, 0, n[0]), "c": v[6]},
    1,
    "leading internal axis, output delivered whole to a function without MapSpec",
)
_t(
    "T20",
    [FSpec("f", ["a", "b"], ["y"], "a[i], b[j] -> y[i, j]", defaults={"b": [1, 2]}), FSpec("g", ["y"], ["r"], "y[i, :] -> r[i]")],
    lambda n, v: {"a": _lst(v, 0, n[0]), "b": _lst(v, 3, n[1])},
    2,
    "a mapped parameter that has a default array and is supplied with an array of another length",
)
_t(
    "T21",
    [FSpec("f", ["a", "b"], ["y"], "a[i], b[j] -> y[i, j]"), FSpec("g", ["y"], ["r"], "y[i, :] -> r[i]")],
    lambda n, v: {"a": _lst(v, 0, n[0]), "b": _lst(v, 3, n[1])},
    2,
    "outer product with one partial reduction: axis i stays independent, j is reduced",
)
_t(
    "TN2",
    [FSpec("f", ["x", "w"], ["y"], "x[i], w[j] -> y[i, j]", none_when_zero=True), FSpec("g", ["y"], ["z"], "y[i, :] -> z[i]")],
    lambda n, v: {"x": _lst(v, 0, n[0]), "w": _lst(v, 3, n[1])},
    2,
    "a producer that returns None for some elements, consumed through a slice",
)

QUICK_SIZES = 2
THOROUGH_SIZES = 3


def size_pre(t, hi):
    pre = [f"1 <= n{a} <= {hi}" for a in range(t.axes)] + [f"n{a} == 1" for a in range(t.axes, 3)]
    return [" and ".join(pre)]


MAP_PARAMS = [("n0", "int"), ("n1", "int"), ("n2", "int")] + [(f"v{i}", "int") for i in range(12)]
MAP_ARGS = "n0, n1, n2, " + ", ".join(f"v{i}" for i in range(12))


def sizes_and_values(n0, n1, n2, vals):
    n = [L.concretize(x, 1, 3) for x in (n0, n1, n2)]
    return n, list(vals)

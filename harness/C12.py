"""C12 - ill-formed pipelines and inputs are rejected before any user code runs."""
from __future__ import annotations

import json
import os

import numpy as np

from engine.ob import Ob
from harness import C01 as _C01  # registers dict_sub  # noqa: F401
from harness import lib as L
from harness import tmpl
from harness.lib import NoTracing, fail
from harness.tmpl import FSpec, T

WHY = L.WHY
OUTSIDE = "type-annotation faults (C16), scope faults, faults that only a worker process can observe"
ASSUMPTIONS = ["run-folder snapshots compare file names, JSON content and (through the token table) pickled objects"]

I = "int"
VALS = [(f"v{i}", I) for i in range(8)]
VARGS = ", ".join(n for n, _ in VALS)


def _snapshot(folder):
    from engine import shims

    snap = {}
    for root, dirs, files in os.walk(folder):
        dirs.sort()
        for f in sorted(files):
            p = os.path.join(root, f)
            with open(p, "rb") as fh:
                b = fh.read()
            rel = os.path.relpath(p, folder)
            if b.startswith(b"TOK") and len(b) == 11 and shims.TOK:
                snap[rel] = ("obj", shims.TOK.get(int(b[3:])))
            elif f.endswith(".json"):
                snap[rel] = ("json", json.loads(b))
            else:
                snap[rel] = ("bytes", b)
    return snap


def _same_snapshot(a, b):
    if set(a) != set(b):
        return False
    for k in sorted(a):
        if a[k][0] != b[k][0]:
            return False
        x, y = a[k][1], b[k][1]
        if a[k][0] == "obj":
            if not tmpl.same_value(tmpl.tolist(x), tmpl.tolist(y)) and not (x == y):
                return False
        elif x != y:
            return False
    return True


def _expect_reject(make_and_run, log, folder=None):
    """the call raises; the call log stays empty; the folder (if any) is unchanged"""
    before = _snapshot(folder) if folder else None
    try:
        make_and_run()
    except Exception:  # noqa: BLE001
        if len(log) != 0:
            return fail("user code ran before the rejection")
        if folder and not _same_snapshot(before, _snapshot(folder)):
            return fail("the run folder was altered by a rejected request")
        return True
    return fail("ill-formed request accepted")


def zip_len(la, lb, storage_sel, with_folder, v0, v1, v2, v3, v4, v5, v6, v7):
    """zipped inputs of lengths la, lb: rejected iff la != lb (before user code, folder untouched)"""
    L.reset()
    la, lb = L.concretize(la, 1, 3), L.concretize(lb, 1, 3)
    t = T["T2"]
    try:
        with NoTracing():
            from engine import shims

            shims.TOK.clear()
            log = tmpl.Log()
            p = tmpl.make_pipeline(t.funcs, log)
            # (file_array without a run_folder would make pipefunc call tempfile.mkdtemp(), whose random name is
            # symbolic under CrossHair)
            folder = L.scratch_dir() if (with_folder or storage_sel) else None
        storage = "file_array" if storage_sel else "dict"
        a, b = [v0, v1, v2][:la], [v3, v4, v5][:lb]
        if with_folder:
            p.map({"a": [v6], "b": [v7]}, run_folder=folder, storage=storage, parallel=False)
            with NoTracing():
                del log[:]
        if la != lb:
            return _expect_reject(
                lambda: p.map({"a": a, "b": b}, run_folder=folder, storage=storage, parallel=False, cleanup=not with_folder), log, folder if with_folder else None
            )
        res = p.map({"a": a, "b": b}, run_folder=folder, storage=storage, parallel=False)
        ref, _ = tmpl.reference(t.funcs, {"a": a, "b": b})
        return tmpl.compare_results(t.funcs, res, ref)
    finally:
        L.cleanup_dirs()


def rank_fault(kind, rank, v0, v1, v2, v3, v4, v5, v6, v7):
    """a 2-D MapSpec input given as list / ndarray of rank r: rejected iff not a rank-2 ndarray"""
    L.reset()
    t = T["T9"]
    with NoTracing():
        log = tmpl.Log()
        p = tmpl.make_pipeline(t.funcs, log)
    rank = L.concretize(rank, 1, 3)
    if kind == 0:
        m = [[v0, v1], [v2, v3]]  # nested list for a 2-D spec
        return _expect_reject(lambda: p.map({"m": m}, storage="dict", parallel=False), log)
    shape = (2, 2, 2)[:rank]
    m = np.empty(shape, dtype=object)
    vals = [v0, v1, v2, v3, v4, v5, v6, v7]
    for k, idx in enumerate(L.indices(shape)):
        m[idx] = vals[k]
    if rank != 2:
        return _expect_reject(lambda: p.map({"m": m}, storage="dict", parallel=False), log)
    res = p.map({"m": m}, storage="dict", parallel=False)
    ref, _ = tmpl.reference(t.funcs, {"m": m})
    return tmpl.compare_results(t.funcs, res, ref)


def supply(sa, sb, sc, sextra, with_folder, v0, v1, v2, v3, v4, v5, v6, v7):
    """T16-like pipeline (roots a, c, p; e and p defaulted): rejected iff a needed root without default is missing or a surplus name is given"""
    L.reset()
    t = T["T16"]
    try:
        with NoTracing():
            from engine import shims

            shims.TOK.clear()
            log = tmpl.Log()
            p = tmpl.make_pipeline(t.funcs, log)
            folder = L.scratch_dir() if with_folder else None
        full = {"a": [v0, v1], "c": v2, "p": v3}
        if folder:
            p.map(dict(full), run_folder=folder, storage="file_array", parallel=False)
            with NoTracing():
                del log[:]
        inputs = {}
        if sa:
            inputs["a"] = full["a"]
        if sb:
            inputs["c"] = full["c"]
        if sc:
            inputs["p"] = full["p"]
        sextra = L.concretize(sextra, 0, 3)
        if sextra == 1:
            inputs["zz"] = v4
        elif sextra == 2:
            inputs["d"] = v4  # named like an intermediate output: still a surplus input of a plain map
        elif sextra == 3:
            inputs["y"] = [v4, v5]  # named like the leaf output
        valid = sa and sb and not sextra
        run = lambda: p.map(dict(inputs), run_folder=folder, storage="file_array" if folder else "dict", parallel=False, cleanup=not folder)  # noqa: E731
        if not valid:
            return _expect_reject(run, log, folder)
        if folder and not sc:
            return True  # different inputs than the stored run: comparing with the previous run is C05's subject
        res = run()
        ref, _ = tmpl.reference(t.funcs, inputs)
        return tmpl.compare_results(t.funcs, res, ref)
    finally:
        L.cleanup_dirs()


def defaults(d1, d2, d3, bound_one):
    """a parameter shared by three functions with defaults d1, d2, d3: construction fails iff they differ (bound ones do not count)"""
    L.reset()
    funcs = [
        FSpec("f", ["a", "s"], ["u"], defaults={"s": d1}),
        FSpec("g", ["b", "s"], ["v"], defaults={"s": d2}, bound={"s": 1} if bound_one else None),
        FSpec("h", ["u", "v", "s"], ["w"], defaults={"s": d3}),
    ]
    log = tmpl.Log()
    consistent = (d1 == d3) if bound_one else (d1 == d2 and d2 == d3)
    try:
        p = tmpl.make_pipeline(funcs, log)
        p.graph  # noqa: B018  (defaults are validated when the graph is built)
        ok = True
    except ValueError:
        ok = False
    if ok != consistent:
        return fail("inconsistent defaults accepted" if ok else "consistent defaults rejected")
    return True


STRUCT = {
    # name: function table that must be rejected at construction (or at the start of map)
    "dup_output": [FSpec("f", ["a"], ["y"], "a[i] -> y[i]"), FSpec("g", ["a"], ["y"], "a[i] -> y[i]")],
    "dup_output_tuple": [FSpec("f", ["a"], ["y", "z"]), FSpec("g", ["a"], ["z"])],
    "output_is_own_parameter": [FSpec("f", ["a", "y"], ["y"])],
    "cycle": [FSpec("f", ["a", "z"], ["y"]), FSpec("g", ["y"], ["z"])],
    "axis_swap": [FSpec("f", ["a", "b"], ["y"], "a[i], b[j] -> y[i, j]"), FSpec("g", ["y"], ["r"], "y[j, i] -> r[j, i]")],
    "axis_rank": [FSpec("f", ["a", "b"], ["y"], "a[i], b[j] -> y[i, j]"), FSpec("g", ["y"], ["r"], "y[i] -> r[i]")],
    "mapspec_non_parameter": [FSpec("f", ["a"], ["y"], "a[i], q[i] -> y[i]")],
    "mapspec_output_mismatch": [FSpec("f", ["a"], ["y"], "a[i] -> w[i]")],
    "mapspec_tuple_output_mismatch": [FSpec("f", ["a"], ["y", "z"], "a[i] -> y[i]")],
}
STRUCT_INPUTS = {"a": [1, 2], "b": [3, 4], "z": 5}


def structural(name, v0, v1, v2, v3):
    L.reset()
    log = tmpl.Log()

    def go():
        p = tmpl.make_pipeline(STRUCT[name], log)
        inputs = {k: x for k, x in {"a": [v0, v1], "b": [v2, v3], "z": v0}.items() if k in p.topological_generations.root_args}
        p.map(inputs, storage="dict", parallel=False)

    return _expect_reject(go, log)


def storage_name(sel, per_output, v0, v1, existing=False):
    """an unknown storage name is rejected; known ones are accepted"""
    L.reset()
    names = ["dict", "file_array", "dict_sub", "nope", "", "File_Array", "dict "]
    sel = L.concretize(sel, 0, len(names) - 1)
    t = T["T1"]
    try:
        with NoTracing():
            from engine import shims

            shims.TOK.clear()
            log = tmpl.Log()
            p = tmpl.make_pipeline(t.funcs, log)
            folder = L.scratch_dir()
        st = {"": "dict", "y": names[sel]} if per_output else names[sel]
        if existing:
            p.map({"x": [v0, v1]}, run_folder=folder, storage="file_array", parallel=False)
            with NoTracing():
                del log[:]
        run = lambda: p.map({"x": [v0, v1]}, run_folder=folder, storage=st, parallel=False, cleanup=not existing)  # noqa: E731
        if sel >= 3:
            return _expect_reject(run, log, folder if existing else None)
        if existing:
            return True
        res = run()
        ref, _ = tmpl.reference(t.funcs, {"x": [v0, v1]})
        return tmpl.compare_results(t.funcs, res, ref)
    finally:
        L.cleanup_dirs()


def storage_dict(sel, form, v0, v1, v2, existing):
    """per-output storage dict on a pipeline with four outputs: an unknown name anywhere in the dict (before / after
    serializing and in-memory entries, as the default entry, for a mapped or an unmapped output) is rejected up front"""
    L.reset()
    bad = ["nope", "", "File_Array", "dict "][L.concretize(sel, 0, 3)]
    form = L.concretize(form, 0, len(STORAGE_FORMS) - 1)
    st = {k: (bad if v == "BAD" else v) for k, v in STORAGE_FORMS[form]}
    t = T["T17"]
    try:
        with NoTracing():
            from engine import shims

            shims.TOK.clear()
            log = tmpl.Log()
            p = tmpl.make_pipeline(t.funcs, log)
            folder = L.scratch_dir()
        inputs = {"a": [v0, v1], "c": v2}
        if existing:
            p.map(dict(inputs), run_folder=folder, storage="file_array", parallel=False)
            with NoTracing():
                del log[:]
        run = lambda: p.map(dict(inputs), run_folder=folder, storage=st, parallel=False, cleanup=not existing)  # noqa: E731
        if any(v == "BAD" for _, v in STORAGE_FORMS[form]):
            return _expect_reject(run, log, folder if existing else None)
        if existing:
            return True
        res = run()
        ref, _ = tmpl.reference(t.funcs, inputs)
        return tmpl.compare_results(t.funcs, res, ref)
    finally:
        L.cleanup_dirs()


# (output name -> storage) in insertion order; BAD is replaced by an unknown name
STORAGE_FORMS = [
    (("y", "file_array"), ("z", "BAD"), ("", "dict")),
    (("z", "BAD"), ("y", "file_array"), ("", "dict")),
    (("y", "dict"), ("z", "BAD"), ("", "file_array")),
    (("", "file_array"), ("x", "BAD")),
    (("y", "file_array"), ("r", "BAD"), ("", "dict")),  # r has no MapSpec
    (("y", "file_array"), ("", "BAD"), ("z", "dict")),
    (("y", "dict_sub"), ("z", "dict"), ("x", "file_array"), ("r", "BAD")),
    (("y", "file_array"), ("z", "dict"), ("", "dict")),  # valid
    (("", "file_array"), ("x", "dict")),  # valid
]


def executor_without_parallel(v0, v1, as_dict):
    L.reset()
    from concurrent.futures import ThreadPoolExecutor

    t = T["T1"]
    with NoTracing():
        log = tmpl.Log()
        p = tmpl.make_pipeline(t.funcs, log)
        ex = ThreadPoolExecutor(1)
    try:
        return _expect_reject(lambda: p.map({"x": [v0, v1]}, storage="dict", parallel=False, executor={"": ex} if as_dict else ex), log)
    finally:
        with NoTracing():
            ex.shutdown()


def internal_shape_missing(kind, v0, v1, v2):
    """an output axis that names no input needs an internal shape: missing / too short is rejected"""
    L.reset()
    funcs = [
        FSpec("gen", ["m"], ["v"], "... -> v[j]", internal=(2,) if kind == 2 else None),
        FSpec("use", ["v", "a"], ["w"], "v[j], a[i] -> w[i, j]"),
    ]
    if kind == 1:
        funcs = [FSpec("f", ["a"], ["y"], "a[i] -> y[i, k, l]", internal=(2,))]
    log = tmpl.Log()
    p = tmpl.make_pipeline(funcs, log)
    inputs = {"a": [v0, v1], "m": v2} if kind != 1 else {"a": [v0, v1]}
    if kind == 2:
        res = p.map(inputs, storage="dict", parallel=False)
        ref, _ = tmpl.reference(funcs, inputs)
        return tmpl.compare_results(funcs, res, ref)
    return _expect_reject(lambda: p.map(inputs, storage="dict", parallel=False), log)


CANARIES = {}


def _canary_no_zip_check():
    import pipefunc.map._mapspec as M

    orig = M._get_common_dim

    def g(arrays, index, input_shapes):
        try:
            return orig(arrays, index, input_shapes)
        except ValueError:
            dims = [input_shapes[x.name][x.axes.index(index)] for x in arrays]
            if max(dims) - min(dims) == 1:
                return min(dims)
            raise

    M._get_common_dim = g


CANARIES["zip_mismatch_by_one_accepted"] = _canary_no_zip_check


def obligations(tier):
    Bo = "bool"
    obs = [
        Ob("zip_len", [("la", I), ("lb", I), ("storage_sel", Bo), ("with_folder", Bo)] + VALS, ["1 <= la <= 3 and 1 <= lb <= 3", "not with_folder"],
           f"H.zip_len(la, lb, storage_sel, with_folder, {VARGS})", timeout=300, flags=("tokpickle",),
           bounds="zipped lengths 1..3 x 1..3, dict / file_array; values unbounded",
           canaries=("zip_mismatch_by_one_accepted",)),
        Ob("zip_len_folder", [("la", I), ("lb", I), ("storage_sel", Bo), ("with_folder", Bo)] + VALS, ["1 <= la <= 2 and 1 <= lb <= 2", "with_folder"],
           f"H.zip_len(la, lb, storage_sel, with_folder, {VARGS})", timeout=300, flags=("tokpickle",),
           bounds="zipped lengths 1..2 x 1..2 against an existing run folder (cleanup=False): rejected without altering the folder"),
        Ob("rank_fault", [("kind", I), ("rank", I)] + VALS, ["0 <= kind <= 1", "1 <= rank <= 3"], f"H.rank_fault(kind, rank, {VARGS})", timeout=200,
           bounds="nested list or ndarray of rank 1..3 for a 2-D MapSpec input"),
        Ob("supply", [("sa", Bo), ("sb", Bo), ("sc", Bo), ("sextra", I), ("with_folder", Bo)] + VALS, ["0 <= sextra <= 3"], f"H.supply(sa, sb, sc, sextra, with_folder, {VARGS})",
           timeout=400, flags=("tokpickle",), bounds="every subset of the root arguments (+ one surplus name: fresh, named like an intermediate output, named like the leaf output), with and without an existing run folder"),
        Ob("defaults", [("d1", I), ("d2", I), ("d3", I), ("bound_one", Bo)], [], "H.defaults(d1, d2, d3, bound_one)", timeout=120,
           bounds="three defaults of a shared parameter, unbounded ints; one optionally bound"),
        Ob("storage_name", [("sel", I), ("per_output", Bo), ("v0", I), ("v1", I)], ["0 <= sel <= 6"], "H.storage_name(sel, per_output, v0, v1)", timeout=200,
           flags=("tokpickle",), bounds="storage names from a list of 3 registered and 4 unknown ones, as a string or per output"),
        Ob("storage_name_existing_folder", [("sel", I), ("per_output", Bo), ("v0", I), ("v1", I)], ["3 <= sel <= 6"], "H.storage_name(sel, per_output, v0, v1, True)",
           timeout=200, flags=("tokpickle",), bounds="unknown storage name with cleanup=False on an existing run folder: rejected without altering the folder"),
        Ob("storage_dict", [("sel", I), ("form", I), ("v0", I), ("v1", I), ("v2", I)], ["0 <= sel <= 3", f"0 <= form < {len(STORAGE_FORMS)}"],
           "H.storage_dict(sel, form, v0, v1, v2, False)", timeout=300, flags=("tokpickle",),
           bounds="per-output storage dicts on a 4-output pipeline: an unknown name before / after serializing and in-memory entries, as default entry, for an unmapped output; 2 valid dicts"),
        Ob("storage_dict_existing_folder", [("sel", I), ("form", I), ("v0", I), ("v1", I), ("v2", I)], ["0 <= sel <= 3", f"0 <= form < {len(STORAGE_FORMS) - 2}"],
           "H.storage_dict(sel, form, v0, v1, v2, True)", timeout=300, flags=("tokpickle",),
           bounds="the same ill-formed dicts with cleanup=False on an existing run folder: rejected without altering the folder"),
        Ob("executor_without_parallel", [("v0", I), ("v1", I), ("as_dict", Bo)], [], "H.executor_without_parallel(v0, v1, as_dict)", timeout=60,
           bounds="executor given with parallel=False"),
        Ob("internal_shape", [("kind", I), ("v0", I), ("v1", I), ("v2", I)], ["0 <= kind <= 2"], "H.internal_shape_missing(kind, v0, v1, v2)", timeout=120,
           bounds="missing / too short / sufficient internal shape"),
    ]  # fmt: skip
    for name in STRUCT:
        obs.append(Ob(f"struct_{name}", [("v0", I), ("v1", I), ("v2", I), ("v3", I)], [], f"H.structural({name!r}, v0, v1, v2, v3)", timeout=60,
                      bounds=f"structural fault {name}: rejected at construction or at the start of map, call log empty"))  # fmt: skip
    return obs

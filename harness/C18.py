"""C18 - lazy pipelines evaluate to the eager result, at most once per node."""
from __future__ import annotations

from engine.ob import Ob
from harness import lib as L
from harness import runt
from harness.lib import NoTracing, fail
from harness.runt import R

import networkx as nx

from pipefunc.lazy import _LazyFunction, construct_dag

WHY = L.WHY
OUTSIDE = "> 5 functions, map with lazy pipelines, HybridCache with lazy (warned against by the library)"
ASSUMPTIONS = ["under construct_dag() the task-graph cache hashes the arguments, so values are restricted to 0..1 there; otherwise unbounded"]

VALS = [(f"v{i}", "int") for i in range(6)]
VARGS = ", ".join(n for n, _ in VALS)


def _root_kw(t, out, vals, p):
    roots = p.root_args(out)
    return {n: v for n, v in zip(roots, vals)}


def lazy_eval(rid, out, dag, v0, v1, v2, v3, v4, v5):
    L.reset()
    t = R[rid]
    vals = (v0, v1, v2, v3, v4, v5)
    with NoTracing():
        log = []
        p = runt.make(t, log, lazy=True)
        runt.warm(p, out)
        kw = _root_kw(t, out, vals, p)
    exp, called, used, memo = runt.ref_eval(t, out, kw)
    if dag:
        with construct_dag() as tg:
            r = p(out, **kw)
            if not _check_graph(t, tg, called, kw):
                return False
    else:
        r = p(out, **kw)
    if not isinstance(r, _LazyFunction):
        return fail("lazy pipeline did not return a deferred object")
    if len(log) != 0:
        return fail("a function ran before evaluate()")
    got = r.evaluate()
    if not (got == exp):
        return fail("evaluate() differs from the eager result")
    if not runt.needed_ok(t, called, list(log), set(kw)):
        return fail("needed functions were not run exactly once")
    n = len(log)
    if not (r.evaluate() == exp) or len(log) != n:
        return fail("second evaluate() re-ran functions or changed the value")
    # eager twin
    with NoTracing():
        log2 = []
        pe = runt.make(t, log2)
        runt.warm(pe, out)
    if not (pe(out, **kw) == got):
        return fail("eager twin differs")
    return True


def _check_graph(t, tg, called, kw):
    g = tg.graph
    if not nx.is_directed_acyclic_graph(g):
        return fail("task graph has a cycle")
    prod = runt.producers(t)
    byname = {fs.name: fs for fs in t}

    def label(n):
        lf = g.nodes[n]["lazy_func"]
        f = lf.func
        name = getattr(f, "__name__", None)
        if name in byname:
            return name
        return None  # output picker

    # contract picker nodes
    edges = set()
    for n in g.nodes:
        if label(n) is None:
            continue
        stack = list(g.successors(n))
        while stack:
            m = stack.pop()
            if label(m) is None:
                stack.extend(g.successors(m))
            else:
                edges.add((label(n), label(m)))
    exp = set()
    for fn in called:
        for prm in byname[fn].params:
            if prm in prod and prm not in kw and prm not in byname[fn].bound:
                exp.add((prod[prm][1].name, fn))
    labels = sorted(x for x in (label(n) for n in g.nodes) if x is not None)
    if labels != sorted(called):
        return fail("task graph nodes are not exactly the needed functions, once each")
    if edges != exp:
        return fail("task graph edges are not exactly the producer-consumer dependencies")
    return True


def dag_history(rid, mid, out, v0, v1, v2, v3, v4, v5):
    """inside one construct_dag(): an intermediate is requested and evaluated first, then a downstream
    output is requested: the recorded graph still has an edge for every producer-consumer dependency"""
    L.reset()
    t = R[rid]
    vals = (v0, v1, v2, v3, v4, v5)
    with NoTracing():
        log = []
        p = runt.make(t, log, lazy=True)
        runt.warm(p)
        kw = {n: v for n, v in zip(p.root_args(out), vals)}
        kw_mid = {n: kw[n] for n in p.root_args(mid)}
    exp, called, used, memo = runt.ref_eval(t, out, kw)
    exp_mid, _, _, _ = runt.ref_eval(t, mid, kw_mid)
    with construct_dag() as tg:
        r1 = p(mid, **kw_mid)
        if not (r1.evaluate() == exp_mid):
            return fail("intermediate value")
        r2 = p(out, **kw)
        if not _check_graph(t, tg, called, kw):
            return False
        if not (r2.evaluate() == exp):
            return fail("value")
    if not runt.needed_ok(t, called, list(log), set(kw)):
        return fail("needed functions were not run exactly once across the two requests")
    return True


def lazy_cut(rid, out, ci, v0, v1, v2, v3, v4, v5):
    """lazy call with a supplied intermediate: producer not executed"""
    L.reset()
    t = R[rid]
    vals = (v0, v1, v2, v3, v4, v5)
    with NoTracing():
        log = []
        p = runt.make(t, log, lazy=True)
        runt.warm(p, out)
        cs = sorted(runt.valid_cuts(t, out))
    ci = L.concretize(ci, 0, len(cs) - 1)
    combo = cs[ci]
    if len(combo) > len(vals):
        return True
    kw = {n: v for n, v in zip(combo, vals)}
    exp, called, used, memo = runt.ref_eval(t, out, kw)
    r = p(out, **kw)
    if len(log) != 0:
        return fail("a function ran before evaluate()")
    if not (r.evaluate() == exp):
        return fail("evaluate() differs")
    if not runt.needed_ok(t, called, list(log), set(kw)):
        return fail("needed functions were not run exactly once")
    return True


SPECIALS = [None, 0, False, "", (), [], 0.0]


def lazy_special(sel, a, nev):
    """a diamond whose shared producer returns a special value (None, 0, False, empty containers) when
    a == 0: still evaluated exactly once, however many consumers share it and however often evaluate() is called"""
    from pipefunc import PipeFunc, Pipeline

    L.reset()
    sel = L.concretize(sel, 0, len(SPECIALS) - 1)
    nev = L.concretize(nev, 1, 3)
    sp = SPECIALS[sel]

    def build(log, lazy):
        def f(a):
            log.append("f")
            return sp if a == 0 else a

        def g(b):
            log.append("g")
            return 1 if b is None else (2 if not b else 3)

        def h(b):
            log.append("h")
            return 5 if b is None else (6 if not b else 7)

        def k(c, d):
            log.append("k")
            return 10 * c + d

        with NoTracing():
            p = Pipeline([PipeFunc(f, "b"), PipeFunc(g, "c"), PipeFunc(h, "d"), PipeFunc(k, "e")], lazy=lazy)
            runt.warm(p)
        return p

    log, log2 = [], []
    p, pe = build(log, True), build(log2, False)
    exp = pe("e", a=a)
    r = p("e", a=a)
    if len(log) != 0:
        return fail("a function ran before evaluate()")
    for _ in range(nev):
        if not (r.evaluate() == exp):
            return fail("evaluate() differs from the eager result")
    if sorted(log) != ["f", "g", "h", "k"]:
        return fail("needed functions were not run exactly once")
    rb = p("b", a=a)
    n = len(log)
    v1 = rb.evaluate()
    v2 = rb.evaluate()
    if len(log) != n + 1:
        return fail("repeated evaluate() of a node re-ran its function")
    eb = pe("b", a=a)
    if not (type(v1) is type(eb) and v1 == eb and type(v2) is type(eb) and v2 == eb):
        return fail("node value differs from the eager result")
    return True


CANARIES = {}


def _canary_no_memo():
    def ev(self):
        from pipefunc.lazy import evaluate_lazy

        args = evaluate_lazy(self.args)
        kwargs = evaluate_lazy(self.kwargs)
        return self.func(*args, **kwargs)

    _LazyFunction.evaluate = ev


CANARIES["evaluate_not_memoised"] = _canary_no_memo


def obligations(tier):
    thorough = tier == "thorough"
    obs = []
    rids = ["R1", "R2", "R3", "R4", "R5", "R7", "R8", "R9"] + (["R6"] if thorough else [])
    for rid in rids:
        t = R[rid]
        outs = [o for fs in t for o in fs.outputs]
        if not thorough:
            outs = outs[-2:] if len(outs) > 2 else outs
        for out in outs:
            obs.append(
                Ob(
                    f"lazy_{rid}_{out}",
                    VALS,
                    [],
                    f"H.lazy_eval({rid!r}, {out!r}, False, {VARGS})",
                    timeout=120,
                    bounds=f"{rid}: lazy=True, output {out}, root arguments unbounded; nothing runs before evaluate(), evaluate() twice, eager twin",
                    canaries=("evaluate_not_memoised",) if (rid, out) == ("R2", "e") else (),
                )
            )
            obs.append(
                Ob(
                    f"dag_{rid}_{out}",
                    VALS,
                    [" and ".join(f"0 <= v{i} <= 1" for i in range(6))],
                    f"H.lazy_eval({rid!r}, {out!r}, True, {VARGS})",
                    timeout=200,
                    bounds=f"{rid}: under construct_dag(): acyclic, nodes = needed functions, edges = producer-consumer pairs; values 0..1",
                )
            )
        out = outs[-1]
        prodm = runt.producers(t)
        mids = [prm for prm in prodm[out][1].params if prm in prodm and prm not in prodm[out][1].bound]
        if mids and not isinstance(out, tuple):
            obs.append(
                Ob(
                    f"daghist_{rid}_{mids[0]}_{out}",
                    VALS,
                    [" and ".join(f"0 <= v{i} <= 1" for i in range(6))],
                    f"H.dag_history({rid!r}, {mids[0]!r}, {out!r}, {VARGS})",
                    timeout=200,
                    bounds=f"{rid}: inside one construct_dag(): request and evaluate {mids[0]}, then request {out}; graph edges and single execution; values 0..1",
                )
            )
        nc = len(runt.valid_cuts(t, out))
        obs.append(
            Ob(
                f"lazycut_{rid}_{out}",
                [("ci", "int")] + VALS,
                [f"0 <= ci < {nc}"],
                f"H.lazy_cut({rid!r}, {out!r}, ci, {VARGS})",
                timeout=200,
                bounds=f"{rid}: lazy call of {out} with every valid set of supplied names ({nc})",
            )
        )
    obs.append(
        Ob(
            "lazy_special",
            [("sel", "int"), ("a", "int"), ("nev", "int")],
            [f"0 <= sel < {len(SPECIALS)}", "1 <= nev <= 3"],
            "H.lazy_special(sel, a, nev)",
            timeout=120,
            bounds="diamond whose shared producer returns None / 0 / False / '' / () / [] / 0.0 when a == 0 (a unbounded): evaluate() 1..3 times, "
            "each function exactly once; a node evaluated twice runs once",
        )
    )
    return obs

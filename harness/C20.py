"""C20 - resource specifications combine monotonically and without side effects.

E1 (CrossHair) obligations: integer quantities (unbounded), purity, with_defaults, dict round trip,
constructor validation, to_slurm_options.  E2 (kernelsmt) obligations: wall-time and memory strings.
"""
from __future__ import annotations

from engine.ob import Ob
from harness import lib as L
from harness.lib import fail

from pipefunc.resources import Resources

from harness.C20_e2 import k1_replay, k1_time, k2_memory, k2_replay, shape, shape_replay, SHAPES, UNITS  # noqa: E402,F401

WHY = L.WHY
OUTSIDE = "callable resources (delayed evaluation), partition/extra_args merging order, memory strings with > 4 integer / > 2 fraction digits, wall-time leading field > 3 digits"
ASSUMPTIONS = []


def _opt(flag, v):
    return v if flag else None


def _valid(cpus, gpus, nodes, cpn):
    """the documented validity predicate"""
    if cpus is not None and cpus <= 0:
        return False
    if gpus is not None and gpus < 0:
        return False
    if nodes is not None and nodes <= 0:
        return False
    if cpn is not None and cpn <= 0:
        return False
    if nodes is not None and cpus is not None:
        return False
    if cpn is not None and nodes is None:
        return False
    return True


def ctor(fc, cpus, fg, gpus, fn_, nodes, fp, cpn):
    """the constructor rejects exactly the documented invalid combinations"""
    L.reset()
    c, g, n, p = _opt(fc, cpus), _opt(fg, gpus), _opt(fn_, nodes), _opt(fp, cpn)
    try:
        r = Resources(cpus=c, gpus=g, nodes=n, cpus_per_node=p)
        ok = True
    except ValueError:
        ok = False
    if ok != _valid(c, g, n, p):
        return fail("constructor accept/reject")
    if ok and not (r.cpus == c and r.gpus == g and r.nodes == n and r.cpus_per_node == p):
        return fail("fields")
    return True


def _snap(r):
    return (r.cpus, r.cpus_per_node, r.nodes, r.memory, r.gpus, r.time, r.partition, dict(r.extra_args), r.parallelization_mode, id(r.extra_args))


def _unchanged(r, snap):
    s = _snap(r)
    for a, b in zip(s, snap):
        if not (a == b):
            return False
    return True


def combine_ints(n, which, f0, c0, f1, c1, f2, c2, f3, c3):
    """combine_max over 1..4 operands: cpus/gpus >= every operand, is one of them, None only if all None; operands unchanged"""
    L.reset()
    vs = [_opt(f0, c0), _opt(f1, c1), _opt(f2, c2), _opt(f3, c3)][:n]
    cs = vs if which == "cpus" else [None] * n
    gs = vs if which == "gpus" else [None] * n
    rs = [Resources(cpus=c, gpus=g, extra_args={"k": i, f"k{i}": i}) for i, (c, g) in enumerate(zip(cs, gs))]
    snaps = [_snap(r) for r in rs]
    out = Resources.combine_max(rs)
    for name, vals, got in (("cpus", cs, out.cpus), ("gpus", gs, out.gpus)):
        present = [v for v in vals if v is not None]
        if not present:
            if got is not None:
                return fail(name + " invented")
            continue
        if got is None:
            return fail(name + " dropped")
        for v in present:
            if got < v:
                return fail(name + " smaller than an operand")
        if not any(got == v for v in present):
            return fail(name + " is not one of the operands")
    for r, s in zip(rs, snaps):
        if not _unchanged(r, s):
            return fail("operand mutated")
    if any(out is r for r in rs):
        return fail("combine_max returned an operand object")
    return True


def update_pure(fc, cpus, fg, gpus, x, newc, key_sel, val):
    """update returns a new object with the new values and leaves the receiver (incl. its extra_args dict) unchanged"""
    L.reset()
    r = Resources(cpus=_opt(fc, cpus), gpus=_opt(fg, gpus), extra_args={"x": x})
    snap = _snap(r)
    if key_sel == 0:
        out = r.update(cpus=newc)
        if out.cpus != newc or out.gpus != r.gpus or out.extra_args != {"x": x}:
            return fail("update(cpus=...)")
    elif key_sel == 1:
        out = r.update(foo=val)  # unknown key is routed to extra_args
        if out.extra_args != {"x": x, "foo": val} or out.cpus != r.cpus:
            return fail("update(foo=...)")
    else:
        out = r.update(extra_args={"y": val})
        if out.extra_args != {"x": x, "y": val}:
            return fail("update(extra_args=...)")
    if out is r:
        return fail("same object")
    if not _unchanged(r, snap):
        return fail("receiver mutated by update")
    return True


def with_defaults(fc, c, fg, g, fn_, n, fp, p, dfc, dc, dfg, dg, dfn, dn, dfp, dp, fm, dfm, ft, dft, fpart, dfpart):
    """with_defaults keeps every quantity set on the receiver and fills only unset ones; operands unchanged"""
    L.reset()
    rq = dict(cpus=_opt(fc, c), gpus=_opt(fg, g), nodes=_opt(fn_, n), cpus_per_node=_opt(fp, p),
              memory=_opt(fm, "2GB"), time=_opt(ft, "1:00:00"), partition=_opt(fpart, "pa"))  # fmt: skip
    dq = dict(cpus=_opt(dfc, dc), gpus=_opt(dfg, dg), nodes=_opt(dfn, dn), cpus_per_node=_opt(dfp, dp),
              memory=_opt(dfm, "8GB"), time=_opt(dft, "9:00:00"), partition=_opt(dfpart, "pb"))  # fmt: skip
    if not _valid(rq["cpus"], rq["gpus"], rq["nodes"], rq["cpus_per_node"]):
        return True
    if not _valid(dq["cpus"], dq["gpus"], dq["nodes"], dq["cpus_per_node"]):
        return True
    merged = {k: (rq[k] if rq[k] is not None else dq[k]) for k in rq}
    if not _valid(merged["cpus"], merged["gpus"], merged["nodes"], merged["cpus_per_node"]):
        return True  # the filled specification would be invalid; the statement does not cover this
    r = Resources(**rq)
    d = Resources(**dq)
    sr, sd = _snap(r), _snap(d)
    out = r.with_defaults(d)
    for k, v in merged.items():
        if getattr(out, k) != v:
            return fail("with_defaults: " + k)
    if not _unchanged(r, sr) or not _unchanged(d, sd):
        return fail("operand mutated by with_defaults")
    if r.with_defaults(None) is not r:
        return fail("with_defaults(None)")
    out2 = Resources.maybe_with_defaults(r, d)
    for k, v in merged.items():
        if getattr(out2, k) != v:
            return fail("maybe_with_defaults: " + k)
    if Resources.maybe_with_defaults(None, d) is not d or Resources.maybe_with_defaults(r, None) is not r:
        return fail("maybe_with_defaults with None")
    return True


def roundtrip(fc, c, fg, g, fn_, n, fp, p, fm, ft, fpart, x, internal):
    """Resources.from_dict(r.dict()) == r"""
    L.reset()
    if not _valid(_opt(fc, c), _opt(fg, g), _opt(fn_, n), _opt(fp, p)):
        return True
    r = Resources(cpus=_opt(fc, c), gpus=_opt(fg, g), nodes=_opt(fn_, n), cpus_per_node=_opt(fp, p), memory=_opt(fm, "1.5GB"),
                  time=_opt(ft, "1:00:00"), partition=_opt(fpart, "pa"), extra_args={"x": x},
                  parallelization_mode="internal" if internal else "external")  # fmt: skip
    d = r.dict()
    r2 = Resources.from_dict(d)
    if not (r2 == r):
        return fail("from_dict(dict()) != r")
    if r2.cpus != r.cpus or r2.gpus != r.gpus or r2.nodes != r.nodes or r2.cpus_per_node != r.cpus_per_node:
        return fail("field lost")
    if r2.memory != r.memory or r2.time != r.time or r2.partition != r.partition or r2.extra_args != r.extra_args:
        return fail("field lost")
    if r2.parallelization_mode != r.parallelization_mode:
        return fail("mode lost")
    if Resources.maybe_from_dict(d) != r or Resources.maybe_from_dict(r) is not r or Resources.maybe_from_dict(None) is not None:
        return fail("maybe_from_dict")
    return True


def slurm(fc, c, fg, g, fn_, n, fp, p, fm, ft, fpart, zero_gpus_allowed):
    """to_slurm_options mentions every quantity that is set"""
    L.reset()
    c, g, n, p = (L.concretize(x, 0, 12) for x in (c, g, n, p))
    cpus, gpus, nodes, cpn = _opt(fc, c), _opt(fg, g), _opt(fn_, n), _opt(fp, p)
    if not _valid(cpus, gpus, nodes, cpn):
        return True
    if gpus == 0 and not zero_gpus_allowed:
        return True
    r = Resources(cpus=cpus, gpus=gpus, nodes=nodes, cpus_per_node=cpn, memory=_opt(fm, "3GB"), time=_opt(ft, "1:02:03"),
                  partition=_opt(fpart, "pq"), extra_args={"qos": "hi"})  # fmt: skip
    opts = r.to_slurm_options().split(" ")
    want = []
    if cpus is not None:
        want.append(f"--cpus-per-task={cpus}")
    if gpus is not None:
        want.append(f"--gres=gpu:{gpus}")
    if nodes is not None:
        want.append(f"--nodes={nodes}")
    if cpn is not None:
        want.append(f"--cpus-per-node={cpn}")
    if fm:
        want.append("--mem=3GB")
    if ft:
        want.append("--time=1:02:03")
    if fpart:
        want.append("--partition=pq")
    want.append("--qos=hi")
    for w in want:
        if w not in opts:
            return fail("quantity not mentioned: " + w.split("=")[0])
    if len(opts) != len(want):
        return fail("spurious option")
    return True


def time_small(h1, m1, s1, h2, m2, s2, fmt1, fmt2):
    """combine_max picks the longer duration - E1 on realised small fields (the E2 obligations cover all digits)"""
    L.reset()
    h1, m1, s1, h2, m2, s2 = (L.concretize(x, 0, 11) for x in (h1, m1, s1, h2, m2, s2))

    def mk(h, m, s, fmt):
        if fmt == 0:
            return f"{h}:{m:02d}:{s:02d}", h * 3600 + m * 60 + s
        if fmt == 1:
            return f"{h:02d}:{m:02d}:{s:02d}", h * 3600 + m * 60 + s
        return f"{m:02d}:{s:02d}", m * 60 + s

    t1, d1 = mk(h1, m1, s1, fmt1)
    t2, d2 = mk(h2, m2, s2, fmt2)
    out = Resources.combine_max([Resources(time=t1), Resources(time=t2)])
    if out.time is None:
        return fail("time dropped")
    dout = d1 if out.time == t1 else d2
    if out.time != t1 and out.time != t2:
        return fail("time is not one of the operands")
    if dout < d1 or dout < d2:
        return fail("time is not the longest duration")
    return True


def mem_small(a, ua, b, ub, c, uc, n):
    """combine_max keeps a memory of maximal size - E1 on realised values from small sets"""
    L.reset()
    from fractions import Fraction

    units = ["B", "KB", "MB", "GB"]
    a, b, c = (L.concretize_in(x, (0, 1, 2, 100, 400, 999, 1000)) for x in (a, b, c))
    ua, ub, uc = (L.concretize(x, 0, 3) for x in (ua, ub, uc))
    ms = [f"{a}{units[ua]}", f"{b}{units[ub]}", f"{c}{units[uc]}"][:n]
    sizes = [Fraction(x) * 1000**u for x, u in ((a, ua), (b, ub), (c, uc))][:n]
    out = Resources.combine_max([Resources(memory=m) for m in ms]).memory
    if out is None or out not in ms:
        return fail("memory dropped or invented")
    if sizes[ms.index(out)] < max(sizes):
        return fail("memory is not the largest operand")
    return True


CANARIES = {}


def _canary_min_cpus():
    import pipefunc.resources as R

    orig = R.Resources.combine_max

    def cm(resources_list):
        out = orig(resources_list)
        cs = [r.cpus for r in resources_list if r.cpus is not None]
        if len(cs) == 3:
            return out.update(cpus=min(cs))
        return out

    R.Resources.combine_max = staticmethod(cm)


CANARIES["min_cpus_for_three"] = _canary_min_cpus


def obligations(tier):
    I, Bo = "int", "bool"
    obs = []
    four = [("fc", Bo), ("cpus", I), ("fg", Bo), ("gpus", I), ("fn_", Bo), ("nodes", I), ("fp", Bo), ("cpn", I)]
    obs.append(Ob("ctor", four, [], "H.ctor(fc, cpus, fg, gpus, fn_, nodes, fp, cpn)", bounds="optional ints, unbounded"))
    P = []
    for i in range(4):
        P += [(f"f{i}", Bo), (f"c{i}", I)]
    for n in (1, 2, 3, 4):
        for which, lo in (("cpus", 1), ("gpus", 0)):
            obs.append(
                Ob(
                    f"combine_{which}_n{n}",
                    P,
                    [f"c0 >= {lo} and c1 >= {lo} and c2 >= {lo} and c3 >= {lo}"],
                    f"H.combine_ints({n}, {which!r}, f0, c0, f1, c1, f2, c2, f3, c3)",
                    timeout=240,
                    bounds=f"{n} operands, {which} optional and unbounded; operands unchanged",
                    canaries=("min_cpus_for_three",) if (n, which) == (3, "cpus") else (),
                )
            )
    obs.append(
        Ob(
            "update_pure",
            [("fc", Bo), ("cpus", I), ("fg", Bo), ("gpus", I), ("x", I), ("newc", I), ("key_sel", I), ("val", I)],
            ["cpus >= 1 and gpus >= 0 and newc >= 1", "0 <= key_sel <= 2"],
            "H.update_pure(fc, cpus, fg, gpus, x, newc, key_sel, val)",
            bounds="update of a field, of an unknown key (routed to extra_args) and of extra_args; values unbounded",
        )
    )
    wd = []
    for pre in ("", "d"):
        wd += [(pre + "fc", Bo), (pre + "c", I), (pre + "fg", Bo), (pre + "g", I), (pre + "fn", Bo) if pre else ("fn_", Bo), (pre + "n", I), (pre + "fp", Bo), (pre + "p", I)]
    wd += [("fm", Bo), ("dfm", Bo), ("ft", Bo), ("dft", Bo), ("fpart", Bo), ("dfpart", Bo)]
    obs.append(
        Ob(
            "with_defaults_ints",
            wd,
            ["not (fm or dfm or ft or dft or fpart or dfpart)"],
            "H.with_defaults(fc, c, fg, g, fn_, n, fp, p, dfc, dc, dfg, dg, dfn, dn, dfp, dp, fm, dfm, ft, dft, fpart, dfpart)",
            timeout=300,
            bounds="receiver and default with optional unbounded ints (cpus, gpus, nodes, cpus_per_node); merged spec valid",
        )
    )
    obs.append(
        Ob(
            "with_defaults_strs",
            wd,
            ["not (fn_ or fp or dfn or dfp or fg or dfg)", "c >= 1 and dc >= 1"],
            "H.with_defaults(fc, c, fg, g, fn_, n, fp, p, dfc, dc, dfg, dg, dfn, dn, dfp, dp, fm, dfm, ft, dft, fpart, dfpart)",
            timeout=300,
            bounds="receiver and default with optional cpus, memory, time, partition",
        )
    )
    obs.append(
        Ob(
            "roundtrip",
            [("fc", Bo), ("c", I), ("fg", Bo), ("g", I), ("fn_", Bo), ("n", I), ("fp", Bo), ("p", I), ("fm", Bo), ("ft", Bo), ("fpart", Bo), ("x", I), ("internal", Bo)],
            [],
            "H.roundtrip(fc, c, fg, g, fn_, n, fp, p, fm, ft, fpart, x, internal)",
            timeout=240,
            bounds="all optional fields, ints unbounded",
        )
    )
    sl = [("fc", Bo), ("c", I), ("fg", Bo), ("g", I), ("fn_", Bo), ("n", I), ("fp", Bo), ("p", I), ("fm", Bo), ("ft", Bo), ("fpart", Bo)]
    obs.append(
        Ob(
            "slurm",
            sl,
            ["c in (1, 12) and g in (1, 2, 12) and n in (1, 12) and p in (1, 3)"],
            "H.slurm(fc, c, fg, g, fn_, n, fp, p, fm, ft, fpart, False)",
            timeout=300,
            bounds="ints from small sets (realised by formatting), all optional; gpus == 0 excluded (region of known finding F13)",
        )
    )
    obs.append(
        Ob(
            "slurm_zero_gpus",
            [("fm", Bo), ("ft", Bo)],
            [],
            "H.slurm(False, 1, True, 0, False, 1, False, 1, fm, ft, False, True)",
            bounds="gpus == 0 (region of known finding F13)",
        )
    )
    obs.append(
        Ob(
            "time_small",
            [("h1", I), ("m1", I), ("s1", I), ("h2", I), ("m2", I), ("s2", I), ("fmt1", I), ("fmt2", I)],
            ["h1 in (1, 10) and h2 in (1, 10)", "m1 in (0, 10) and m2 in (0, 10) and s1 in (0, 1) and s2 == 0", "0 <= fmt1 <= 2 and 0 <= fmt2 <= 2"],
            "H.time_small(h1, m1, s1, h2, m2, s2, fmt1, fmt2)",
            timeout=300,
            bounds="H:MM:SS / HH:MM:SS / MM:SS with fields from small sets (realised); see the k1_* members for all digit strings",
        )
    )
    for n in (2, 3):
        obs.append(
            Ob(
                f"mem_small_n{n}",
                [("a", I), ("ua", I), ("b", I), ("ub", I), ("c", I), ("uc", I)],
                ["a in (1, 100, 400, 999) and b in (1, 100, 400, 1000) and c in (0, 2)", "0 <= ua <= 3 and 0 <= ub <= 3 and uc in (0, 3)"],
                f"H.mem_small(a, ua, b, ub, c, uc, {n})",
                timeout=300,
                bounds=f"{n} memory strings with values from small sets and units B..GB (realised); exact rational comparison",
            )
        )
    # ---- E2 (kernelsmt) members ---------------------------------------------------------
    thorough = tier == "thorough"
    for nf1 in (2, 3, 4):
        for nf2 in (2, 3, 4):
            obs.append(
                Ob(
                    f"k1_time_{nf1}_{nf2}", [], [], f"H.k1_time({nf1}, {nf2})", kind="e2", replay_body="H.k1_replay(**ce)", timeout=300,
                    bounds=f"all wall-time strings with {nf1} and {nf2} colon-separated fields (leading field 1..3 digits when > 2 fields, others 2 digits)",
                )  # fmt: skip
            )
    for nfs in ((3, 3, 3), (2, 3, 4), (4, 3, 2)) if thorough else ():
        obs.append(
            Ob(
                "k1_time_" + "_".join(map(str, nfs)), [], [], f"H.k1_time{nfs!r}", kind="e2", replay_body="H.k1_replay(**ce)", timeout=600,
                bounds=f"three operands with {nfs} fields",
            )  # fmt: skip
        )
    combos = [(hf1, u1, hf2, u2) for hf1 in (False, True) for hf2 in (False, True) for u1 in UNITS for u2 in UNITS]
    if not thorough:
        combos = [c for n, c in enumerate(combos) if n % 12 == (n // 12) % 12][:12]
    for hf1, u1, hf2, u2 in combos:
        obs.append(
            Ob(
                f"k2_mem_{'f' if hf1 else 'i'}{u1}_{'f' if hf2 else 'i'}{u2}", [], [], f"H.k2_memory({hf1}, {u1!r}, {hf2}, {u2!r})", kind="e2",
                replay_body="H.k2_replay(**ce)", timeout=300,
                bounds=f"all memory strings <1..4 digits>{'.<1..2 digits>' if hf1 else ''}{u1} vs <1..4 digits>{'.<1..2 digits>' if hf2 else ''}{u2} (sizes as reals)",
            )  # fmt: skip
        )
    for name in SHAPES:
        obs.append(
            Ob(
                f"shape_{name}", [], [], f"H.shape({name!r})", kind="e2", replay_body="H.shape_replay(**ce)", timeout=120,
                bounds=f"every string of shape {name} is {'accepted' if SHAPES[name][2] else 'rejected'} by the constructor (regex inclusion / disjointness)",
            )  # fmt: skip
        )
    return obs

"""C17 - sweeps enumerate exactly the documented combinations."""
from __future__ import annotations

import itertools

from engine.ob import Ob
from harness import lib as L
from harness.lib import NoTracing, fail

from pipefunc.sweep import MultiSweep, Sweep, count_sweep

WHY = L.WHY
OUTSIDE = "more than 4 keys, lists longer than 3, unhashable values, use_pandas=True, set_cache_for_sweep"
ASSUMPTIONS = ["list lengths are realised (0..3); list elements, constants and deriver coefficients are unbounded symbolic ints"]

KEYS = ("a", "b", "c", "d")


def ref_list(items, dims, constants=None, derivers=None, exclude=None):
    """definition: Cartesian product of the zipped groups, constants added, derivers applied, excluded removed"""
    if not items:
        return []
    groups = [tuple(g) if isinstance(g, tuple) else (g,) for g in dims] if dims is not None else [(k,) for k in items]
    parts = []
    for g in groups:
        n = len(items[g[0]])
        for k in g:
            if len(items[k]) != n:
                raise ValueError(k)
        parts.append([{k: items[k][i] for k in g} for i in range(n)])
    out = []
    for combo in itertools.product(*parts):
        c = {}
        for part in combo:
            c.update(part)
        for k, v in (constants or {}).items():
            c.setdefault(k, v)
        for k, f in (derivers or {}).items():
            c[k] = f(c)
        if exclude is None or not exclude(c):
            out.append(c)
    return out


def same_dict(x, y):
    if list(x.keys()) != list(y.keys()) and set(x.keys()) != set(y.keys()):
        return False
    for k in x:
        if not (x[k] == y[k]):
            return False
    return True


def same_list(got, exp, ordered=True):
    if len(got) != len(exp):
        return False
    if ordered:
        for g, e in zip(got, exp):
            if not same_dict(g, e):
                return False
        return True
    rest = list(exp)
    for g in got:
        for i, e in enumerate(rest):
            if same_dict(g, e):
                del rest[i]
                break
        else:
            return False
    return True


def _items(nkeys, lens, vals):
    items = {}
    for i in range(nkeys):
        n = L.concretize(lens[i], 0, 3)
        items[KEYS[i]] = [vals[3 * i], vals[3 * i + 1], vals[3 * i + 2]][:n]
    return items


def _run_both(make, ref, ordered=True, check_len=True):
    """make() -> Sweep; ref() -> expected list (may raise ValueError, in which case list() must raise too)"""
    try:
        exp = ref()
        exp_ok = True
    except ValueError:
        exp_ok = False
    s = make()
    try:
        got = s.list()
        got_ok = True
    except ValueError:
        got_ok = False
    if exp_ok != got_ok:
        return fail("accept/reject of zipped lengths")
    if not exp_ok:
        return True
    if not same_list(got, exp, True) and (ordered or not same_list(got, exp, False)):
        return fail("combinations differ")
    it = list(iter(s))
    if not same_list(it, got, True):
        return fail("iteration differs from list()")
    if check_len and len(s) != len(got):
        return fail("len(sweep) != len(sweep.list())")
    return True


def basic(nkeys, dims, ordered, variant, la, lb, lc, ld, v0, v1, v2, v3, v4, v5, v6, v7, v8, v9, v10, v11, cval):
    L.reset()
    use_const, use_der, use_excl = "c" in variant, "d" in variant, "e" in variant
    items = _items(nkeys, (la, lb, lc, ld), (v0, v1, v2, v3, v4, v5, v6, v7, v8, v9, v10, v11))
    constants = {"k": cval, "a": cval + 1} if use_const else None
    derivers = {"z": lambda c: 3 * c["a"] + 5 * c.get("b", 0) + 7 * c.get("k", 0), "a": lambda c: c["a"] + 1000} if use_der else None
    exclude = (lambda c: c["a"] < c.get("b", 0)) if use_excl else None
    return _run_both(
        lambda: Sweep(dict(items), dims=list(dims) if dims is not None else None, exclude=exclude, constants=constants, derivers=derivers),
        lambda: ref_list(items, dims, constants, derivers, exclude),
        ordered,
    )


def empty_items():
    L.reset()
    s = Sweep({})
    if s.list() != []:
        return fail("list of empty sweep")
    if len(s) != len(s.list()):
        return fail("len(Sweep({})) != len(list)")
    return True


def product2(dims1, dims2, la, lb, lc, ld, v0, v1, v2, v3, v4, v5, v6, v7, v8, v9, v10, v11, ex1, ex2, c1, c2):
    """product of sweep over (a, b) with sweep over (c, d)"""
    L.reset()
    vals = (v0, v1, v2, v3, v4, v5, v6, v7, v8, v9, v10, v11)
    items = _items(4, (la, lb, lc, ld), vals)
    i1 = {k: items[k] for k in ("a", "b")}
    i2 = {k: items[k] for k in ("c", "d")}
    e1 = (lambda c: c["a"] < c["b"]) if ex1 else None
    e2 = (lambda c: c["c"] < c["d"]) if ex2 else None
    k1 = {"p": 1} if c1 else None
    k2 = {"q": 2} if c2 else None

    def ref():
        l1 = ref_list(i1, dims1, k1, None, e1)
        l2 = ref_list(i2, dims2, k2, None, e2)
        return [{**x, **y} for x in l1 for y in l2]

    def make():
        s1 = Sweep(dict(i1), dims=list(dims1) if dims1 is not None else None, exclude=e1, constants=k1)
        s2 = Sweep(dict(i2), dims=list(dims2) if dims2 is not None else None, exclude=e2, constants=k2)
        return s1.product(s2)

    return _run_both(make, ref, ordered=False)


def product3(la, lb, lc, v0, v1, v2, v3, v4, v5, v6, v7, v8, ex1, ex2, ex3, t1, t2, t3):
    """product of three single-key sweeps, each with its own exclude (threshold on its own key)"""
    L.reset()
    items = _items(3, (la, lb, lc, 0), (v0, v1, v2, v3, v4, v5, v6, v7, v8, 0, 0, 0))
    ex = [
        (lambda c: c["a"] < t1) if ex1 else None,
        (lambda c: c["b"] < t2) if ex2 else None,
        (lambda c: c["c"] < t3) if ex3 else None,
    ]

    def ref():
        ls = [ref_list({k: items[k]}, None, None, None, e) for k, e in zip("abc", ex)]
        return [{**x, **y, **z} for x in ls[0] for y in ls[1] for z in ls[2]]

    def make():
        ss = [Sweep({k: items[k]}, exclude=e) for k, e in zip("abc", ex)]
        return ss[0].product(ss[1], ss[2])

    return _run_both(make, ref, ordered=False)


def concat(dims1, la, lb, lc, v0, v1, v2, v3, v4, v5, v6, v7, v8, form):
    """+ / MultiSweep concatenate in operand order, whatever the nesting of the additions"""
    L.reset()
    form = L.concretize(form, 0, 5)
    items = _items(3, (la, lb, lc, 0), (v0, v1, v2, v3, v4, v5, v6, v7, v8, 0, 0, 0))
    i1 = {k: items[k] for k in ("a", "b")}
    i2 = {"c": items["c"]}

    def ref():
        r1, r2 = ref_list(i1, dims1), ref_list(i2, None)
        return {0: r1 + r2, 1: r1 + r2 + r1, 2: r1 + r2 + r1, 3: r2 + r1 + r1, 4: r1 + r2 + r2 + r1, 5: r2 + r1 + r2}[form]

    def make():
        s1 = Sweep(dict(i1), dims=list(dims1) if dims1 is not None else None)
        s2 = Sweep(dict(i2))
        if form == 0:
            return MultiSweep(s1, s2)
        if form == 1:
            return s1 + s2 + s1
        if form == 2:
            return s1 + (s2 + s1)  # right-nested
        if form == 3:
            return s2 + MultiSweep(s1, s1)
        if form == 4:
            return (s1 + s2) + (s2 + s1)
        return MultiSweep(s2, s1) + s2

    return _run_both(make, ref, ordered=True)


def filtered(dims, keep, mode, la, lb, lc, v0, v1, v2, v3, v4, v5, v6, v7, v8):
    """filtered_sweep(keys) == distinct projections (first-occurrence order not required)"""
    L.reset()
    vals = (v0, v1, v2, v3, v4, v5, v6, v7, v8)
    items = _items(3, (la, lb, lc, 0), vals + (0, 0, 0))
    if mode != "dupvalues":
        # region without repeated values inside one list (see known finding: duplicates by value survive)
        for k in items:
            vs = items[k]
            for i in range(len(vs)):
                for j in range(i + 1, len(vs)):
                    if vs[i] == vs[j]:
                        return True
    try:
        full = ref_list(items, dims)
    except ValueError:
        return True
    proj = []
    for c in full:
        p = {k: c[k] for k in keep}
        if not any(same_dict(p, q) for q in proj):
            proj.append(p)
    s = Sweep(dict(items), dims=list(dims) if dims is not None else None)
    try:
        got = s.filtered_sweep(keep).list()
    except ValueError:
        # zipped lengths are only checked for the groups that remain; the full sweep was valid
        return fail("filtered sweep raised")
    if not same_list(got, proj, ordered=False):
        return fail("filtered_sweep is not the set of distinct projections")
    return True


def count(la, lb, lx, v0, v1, v2, v3, v4, v5, v6, v7, v8):
    """count_sweep on f(a, b) -> c ; g(c, a) -> d ; h(d, x) -> e"""
    L.reset()
    with NoTracing():
        from pipefunc import Pipeline, pipefunc

        @pipefunc(output_name="c")
        def f(a, b):
            return a + b

        @pipefunc(output_name="d")
        def g(c, a):
            return c * a

        @pipefunc(output_name="e")
        def h(d, x):
            return d - x

        p = Pipeline([f, g, h])
    its = _items(3, (la, lb, lx, 0), (v0, v1, v2, v3, v4, v5, v6, v7, v8, 0, 0, 0))
    items = {"a": its["a"], "b": its["b"], "x": its["c"]}
    combos = ref_list(items, None)
    got = count_sweep("e", Sweep(dict(items)), p)
    if set(got.keys()) != {"c", "d"}:
        return fail("dependencies")
    for name in ("c", "d"):
        root = p.root_args(name)
        if set(root) != {"a", "b"}:
            return fail("root args")
        exp = []  # [(key tuple, count)]
        for c in combos:
            key = tuple(c[r] for r in root)
            for e in exp:
                if e[0] == key:
                    e[1] += 1
                    break
            else:
                exp.append([key, 1])
        cnt = got[name]
        if len(cnt) != len(exp):
            return fail("number of distinct root tuples")
        for key, n in exp:
            if cnt.get(key) != n:
                return fail("count")
    return True


CANARIES = {}


def _canary_zip_product():
    import pipefunc.sweep as S

    orig = S.Sweep.generate

    def gen(self):
        if self.dims is not None and any(isinstance(d, tuple) and len(d) > 1 for d in self.dims) and len(self.items) == 3:
            yield from S.Sweep(self.items, None, self.exclude, self.constants, self.derivers).generate()
            return
        yield from orig(self)

    S.Sweep.generate = gen


CANARIES["zip_as_product"] = _canary_zip_product

VALS = [(f"v{i}", "int") for i in range(12)]


def _partitions(keys):
    keys = list(keys)
    if not keys:
        yield []
        return
    first, rest = keys[0], keys[1:]
    for p in _partitions(rest):
        yield [(first,)] + p
        for i in range(len(p)):
            yield p[:i] + [(first,) + p[i]] + p[i + 1 :]


def _dims_variants(keys):
    """(id, dims, ordered): every set partition with groups in item order (ordered result required),
    singletons given as str, plus one variant with the groups reversed (multiset comparison)"""
    out = [("none", None, True)]
    for p in _partitions(keys):
        p = sorted(p, key=lambda g: keys.index(g[0]))
        dims = [g[0] if len(g) == 1 else tuple(g) for g in p]
        pid = "_".join("".join(g) for g in p)
        out.append((pid, dims, True))
    p = [(k,) for k in reversed(keys)]
    if len(keys) > 1:
        out.append(("rev", [g[0] for g in p], False))
        out.append(("revzip", [tuple(reversed(keys))], False))
    return out


def obligations(tier):  # noqa: C901
    I, Bo = "int", "bool"
    thorough = tier == "thorough"
    obs = []
    vn = ", ".join(n for n, _ in VALS)
    for nkeys in (1, 2, 3) + ((4,) if thorough else ()):
        keys = KEYS[:nkeys]
        for pid, dims, ordered in _dims_variants(keys):
            zero = " and ".join(f"l{k} == 0" for k in KEYS[nkeys:]) or "True"
            for variant in ("plain", "c", "d", "e", "cde"):
                if variant == "e" and nkeys < 2:
                    continue
                if variant == "cde" and not (thorough or nkeys == 2):
                    continue
                hi = 3 if variant in ("plain", "c", "d") and nkeys <= 3 and ordered else 2
                if nkeys == 4:
                    hi = 2
                LP = " and ".join(f"0 <= l{k} <= {hi}" for k in keys)
                obs.append(
                    Ob(
                        f"basic_{nkeys}_{pid}_{variant}",
                        [("la", I), ("lb", I), ("lc", I), ("ld", I)] + VALS + [("cval", I)],
                        [LP, zero],
                        f"H.basic({nkeys}, {dims!r}, {ordered}, {variant!r}, la, lb, lc, ld, {vn}, cval)",
                        timeout=240,
                        bounds=f"{nkeys} keys, dims={dims}, list lengths 0..{hi} symbolic, elements unbounded; variant {variant}: c = constants (one shadowed "
                        f"by an item), d = derivers (one overwriting an item), e = exclude a < b; {'ordered' if ordered else 'multiset'} comparison",
                        canaries=("zip_as_product",) if (nkeys, pid, variant) == (3, "ab_c", "plain") else (),
                    )
                )
    obs.append(Ob("empty_items", [("x", I)], [], "H.empty_items()", bounds="Sweep({})", twin=True))
    dv2 = [("none", None), ("zip", [("a", "b")]), ("sep", ["a", "b"])]
    dv2b = [("none", None), ("zip", [("c", "d")]), ("sep", ["c", "d"])]
    for id1, d1 in dv2:
        for id2, d2 in dv2b:
            for ex in ("plain", "excl", "const"):
                pre = {"plain": "not ex1 and not ex2 and not c1 and not c2", "excl": "not c1 and not c2 and (ex1 or ex2)", "const": "not ex1 and not ex2 and (c1 or c2)"}[ex]
                obs.append(
                    Ob(
                        f"product2_{id1}_{id2}_{ex}",
                        [("la", I), ("lb", I), ("lc", I), ("ld", I)] + VALS + [("ex1", Bo), ("ex2", Bo), ("c1", Bo), ("c2", Bo)],
                        ["0 <= la <= 2 and 0 <= lb <= 2 and 0 <= lc <= 2 and 0 <= ld <= 2" if ex != "excl" else "0 <= la <= 2 and 0 <= lb <= 1 and 0 <= lc <= 2 and 0 <= ld <= 1", pre],
                        f"H.product2({d1!r}, {d2!r}, la, lb, lc, ld, {vn}, ex1, ex2, c1, c2)",
                        timeout=240,
                        bounds=f"Sweep(a, b; dims={d1}).product(Sweep(c, d; dims={d2})), lengths 0..2; {ex}: exclude / constants on either operand",
                    )
                )
    obs.append(
        Ob(
            "product3",
            [("la", I), ("lb", I), ("lc", I)] + VALS[:9] + [("ex1", Bo), ("ex2", Bo), ("ex3", Bo), ("t1", I), ("t2", I), ("t3", I)],
            ["0 <= la <= 2 and 0 <= lb <= 2 and 0 <= lc <= 2"],
            f"H.product3(la, lb, lc, {', '.join(n for n, _ in VALS[:9])}, ex1, ex2, ex3, t1, t2, t3)",
            timeout=240,
            bounds="a.product(b, c) with an optional exclude on each operand",
        )
    )
    for id1, d1 in dv2:
        obs.append(
            Ob(
                f"concat_{id1}",
                [("la", I), ("lb", I), ("lc", I)] + VALS[:9] + [("form", I)],
                ["0 <= la <= 3 and 0 <= lb <= 3 and 0 <= lc <= 3", "0 <= form <= 5"],
                f"H.concat({d1!r}, la, lb, lc, {', '.join(n for n, _ in VALS[:9])}, form)",
                timeout=240,
                bounds="MultiSweep(s1, s2), s1 + s2 + s1, s1 + (s2 + s1), s2 + MultiSweep(s1, s1), (s1 + s2) + (s2 + s1), MultiSweep(s2, s1) + s2",
            )
        )
    fdims = [("none", None), ("ab_c", [("a", "b"), "c"]), ("a_bc", ["a", ("b", "c")]), ("abc", [("a", "b", "c")])]
    keeps = [("a",), ("b",), ("a", "c"), ("b", "c"), ("a", "b", "c")]
    for fid, d in fdims:
        for keep in keeps if thorough else keeps[:3]:
            for mode in ("main", "dupvalues", "emptydim"):
                isolating = (fid, keep) == ("none", ("a",))
                if mode != "main" and not (isolating or thorough):
                    continue
                lens = "1 <= la <= 2 and 1 <= lb <= 2 and 1 <= lc <= 2" if mode != "emptydim" else "0 <= la <= 2 and 0 <= lb <= 2 and 0 <= lc <= 2 and (la == 0 or lb == 0 or lc == 0)"
                obs.append(
                    Ob(
                        f"filtered_{fid}_{''.join(keep)}_{mode}",
                        [("la", I), ("lb", I), ("lc", I)] + VALS[:9],
                        [lens],
                        f"H.filtered({d!r}, {keep!r}, {mode!r}, la, lb, lc, {', '.join(n for n, _ in VALS[:9])})",
                        timeout=150,
                        bounds=f"filtered_sweep({keep}) of dims={d}; "
                        + {"main": "lengths 1..2, values inside one list pairwise different", "dupvalues": "lengths 1..2, values unconstrained (region of known finding F07)",
                           "emptydim": "some list empty (region of known finding F08)"}[mode],
                    )  # fmt: skip
                )
    obs.append(
        Ob(
            "count_sweep",
            [("la", I), ("lb", I), ("lx", I)] + VALS[:9],
            ["0 <= la <= 2 and 0 <= lb <= 2 and 0 <= lx <= 1", " and ".join(f"0 <= v{i} <= 1" for i in (0, 1, 3, 4)) + " and v2 == 0 and v5 == 0"],
            f"H.count(la, lb, lx, {', '.join(n for n, _ in VALS[:9])})",
            timeout=240,
            bounds="count_sweep on a 3-function chain; a and b values in 0..1 (they are dict keys, hence realised), x unbounded",
        )
    )
    return obs

"""C04 - results stored in a run folder reload exactly."""
from __future__ import annotations

import numpy as np

from engine.ob import Ob
from harness import C01 as _C01  # registers dict_sub  # noqa: F401
from harness import lib as L
from harness import tmpl
from harness.lib import NoTracing, fail
from harness.tmpl import MAP_ARGS, MAP_PARAMS, T

from pipefunc.map import load_outputs
from pipefunc.map._run_info import RunInfo
from pipefunc.map._storage_array._base import get_storage_class

WHY = L.WHY
OUTSIDE = "a fresh interpreter (no symbolic execution across processes), cloudpickle fidelity (token table), load_xarray_dataset (C19), the real shared_memory_dict, zarr"
ASSUMPTIONS = ["cloudpickle round-trips values exactly (S3); the file system is a real tmpfs directory"]


def _storage_for(t, kind):
    """storage argument for Pipeline.map"""
    mapped = [fs for fs in t.funcs if fs.mapspec and tmpl.parse_spec(fs.mapspec)[0]]
    if kind in ("file_array", "dict", "dict_sub"):
        return kind
    first = mapped[0]
    key = tuple(first.outputs) if len(first.outputs) > 1 else first.outputs[0]
    if kind == "mix_file_first":
        return {"": "dict", key: "file_array"}
    if kind == "mix_dict_first":
        return {"": "file_array", key: "dict"}
    if kind == "mix_sub_first":
        return {"": "file_array", key: "dict_sub"}
    raise AssertionError(kind)


def _class_for(storage, fs):
    if isinstance(storage, str):
        return storage
    key = tuple(fs.outputs) if len(fs.outputs) > 1 else fs.outputs[0]
    return storage.get(key, storage.get(""))


def reload(tid, kind, persist, n0, n1, n2, *vals):  # noqa: C901, PLR0911, PLR0912
    L.reset()
    scoped = tid.endswith("@s")  # all root inputs moved into the scope "s" (names "s.a", "s.b", ...)
    t = T[tid.split("@")[0]]
    n, v = tmpl.sizes_and_values(n0, n1, n2, vals)
    try:
        with NoTracing():
            from engine import shims

            shims.TOK.clear()
            log = tmpl.Log()
            p = tmpl.make_pipeline(t.funcs, log)
            if scoped:
                p.update_scope("s", inputs="*")
                p.mapspecs_as_strings  # noqa: B018
            folder = L.scratch_dir()
        storage = _storage_for(t, kind)
        inputs = t.inputs(n, v)
        ref, ncalls = tmpl.reference(t.funcs, inputs)
        if scoped:
            inputs = {"s." + k: x for k, x in inputs.items()}
        res = p.map(dict(inputs), run_folder=folder, storage=storage, parallel=False, persist_memory=persist)
        if not tmpl.compare_results(t.funcs, res, ref):
            return False
        ncalled = len(log)
        for rep in (0, 1):  # repeated load is idempotent
            for fs in t.funcs:
                is_map = bool(fs.mapspec and tmpl.parse_spec(fs.mapspec)[0])
                cls = _class_for(storage, fs)
                persists = (not is_map) or cls == "file_array" or persist
                for o in fs.outputs:
                    got = load_outputs(o, run_folder=folder)
                    if persists:
                        if not tmpl.same_value(got, ref[o]):
                            return fail(f"load_outputs({o}) differs from what the run produced")
                    else:
                        # a memory storage that was not persisted must not pretend to hold data
                        if isinstance(got, np.ndarray) and got.size and not np.ma.getmaskarray(got).all():
                            return fail(f"{o}: unpersisted storage reloaded values")
            names = [o for fs in t.funcs for o in fs.outputs]
            many = load_outputs(*names, run_folder=folder)
            if len(names) > 1 and len(many) != len(names):
                return fail("load_outputs(*names) length")
        if len(log) != ncalled:
            return fail("loading executed user functions")
        # RunInfo round trip
        ri = RunInfo.load(folder)
        for k, x in inputs.items():
            if k not in ri.inputs or not tmpl.same_value(ri.inputs[k], tmpl.tolist(x)):
                return fail(f"input {k} does not reload")
        if set(ri.inputs) != set(inputs):
            return fail("reloaded inputs have other names")
        if dict(ri.defaults) != dict(p.defaults):
            return fail("defaults do not reload")
        if ri.all_output_names != {o for fs in t.funcs for o in fs.outputs}:
            return fail("all_output_names")
        if list(ri.mapspecs_as_strings) != list(p.mapspecs_as_strings):
            return fail("mapspecs_as_strings")
        if ri.storage != storage:
            return fail("storage choice does not round-trip")
        if str(ri.run_folder) != str(folder):
            return fail("run_folder")
        for fs in t.funcs:
            if not fs.mapspec:
                continue
            key = tuple(fs.outputs) if len(fs.outputs) > 1 else fs.outputs[0]
            shape = tmpl.shape_of(ref[fs.outputs[0]])
            if key not in ri.shapes or tuple(ri.shapes[key]) != shape:
                return fail("shapes do not round-trip")
            ins, outs = tmpl.parse_spec(fs.mapspec)
            used = {a for _, axes in ins for a in axes if a is not None}
            mask = tuple(a in used for a in outs[0][1])
            if tuple(ri.shape_masks[key]) != mask:
                return fail("shape_masks do not round-trip")
            if fs.internal:
                for o in fs.outputs:
                    if tuple(ri.internal_shapes[o]) != tuple(fs.internal):
                        return fail("internal_shapes do not round-trip")
        store = ri.init_store()
        for fs in t.funcs:
            is_map = bool(fs.mapspec and tmpl.parse_spec(fs.mapspec)[0])
            for o in fs.outputs:
                if is_map:
                    if type(store[o]) is not get_storage_class(_class_for(storage, fs)):
                        return fail("storage class of the reloaded store")
                    sh = tmpl.shape_of(ref[o])
                    if tuple(store[o].full_shape) != sh:
                        return fail("geometry of the reloaded store")
        ri2 = RunInfo.load(folder)
        if not (ri2.shapes == ri.shapes and ri2.shape_masks == ri.shape_masks and ri2.storage == ri.storage and ri2.internal_shapes == ri.internal_shapes):
            return fail("RunInfo.load is not idempotent")
        return True
    finally:
        L.cleanup_dirs()


CANARIES = {}


def _canary_tuple_key():
    import pipefunc.map._run_info as RI

    RI._maybe_str_to_tuple = lambda x: x


CANARIES["tuple_keys_not_restored"] = _canary_tuple_key


def obligations(tier):
    thorough = tier == "thorough"
    obs = []
    hi = 3 if thorough else 2
    quick = {
        "T1": ["file_array", "dict"],
        "T4": ["file_array", "dict", "mix_file_first", "dict_sub"],
        "T19": ["dict", "file_array"],
        "T5": ["mix_dict_first"],
        "T6": ["file_array", "dict"],
        "T7": ["file_array", "dict"],
        "T7p": ["file_array", "dict"],
        "TN": ["file_array", "dict"],
        "T8": ["file_array", "dict", "mix_file_first", "mix_dict_first"],
        "T10": ["file_array"],
        "T12": ["mix_file_first"],
        "T13": ["dict"],
        "T16": ["file_array"],
        "T22": ["file_array", "mix_dict_first", "mix_file_first"],
        "T2@s": ["file_array"],
        "T5@s": ["dict"],
    }
    allkinds = ["file_array", "dict", "dict_sub", "mix_file_first", "mix_dict_first", "mix_sub_first"]
    tids = list(quick) if not thorough else [x for x in T if x not in ("T8p",)] + ["T2@s", "T5@s", "T3@s", "T13@s"]
    for tid in tids:
        t = T[tid.split("@")[0]]
        kinds = allkinds if thorough else quick[tid]
        for kind in kinds:
            obs.append(
                Ob(
                    f"reload_{tid.replace('@s', 'scoped')}_{kind}",
                    [("persist", "bool")] + MAP_PARAMS,
                    tmpl.size_pre(t, hi),
                    f"H.reload({tid!r}, {kind!r}, persist, {MAP_ARGS})",
                    timeout=400 if not thorough else 1200,
                    flags=("tokpickle",),
                    bounds=f"{tid}: {t.doc}{' (all root inputs in scope s)' if '@' in tid else ''}; storage {kind}; persist_memory symbolic; sizes 1..{hi}; values unbounded; load_outputs (twice, single and "
                    "multi-name), RunInfo.load (inputs, defaults, shapes, masks, mapspecs, internal shapes, storage), init_store",
                    canaries=("tuple_keys_not_restored",) if (tid, kind) == ("T8", "mix_file_first") else (),
                )
            )
    return obs

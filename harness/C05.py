"""C05 - an interrupted map resumes to the uninterrupted result, redoing no stored work.

The crash point is a symbolic integer compared with a counter of the file-system events pipefunc
causes (mkdir, open-for-write, one flush per written file at close, os.replace, rmtree, unlink).
At the chosen event the interceptor raises Crash(BaseException); a crash inside a flush first
writes half of the bytes (torn) or none (created-but-empty), chosen by a second symbolic value.
"""
from __future__ import annotations

import os
import pathlib
import shutil

from engine.ob import Ob
from harness import C01 as _C01  # registers dict_sub  # noqa: F401
from harness import lib as L
from harness import tmpl
from harness.C13 import FailPlan
from harness.lib import NoTracing, fail
from harness.tmpl import MAP_ARGS, MAP_PARAMS, T

WHY = L.WHY
OUTSIDE = (
    "worker processes dying under parallel=True, write reordering below the system-call level (no fsync model), power loss, "
    "more than two successive crashes"
)
ASSUMPTIONS = [
    "process death is modelled as a BaseException raised at a file-system event; buffered bytes of the file being written are torn "
    "(half / none) and nothing else is flushed; the resumed run uses a freshly built pipeline object",
    "the file system is a real tmpfs directory; rename (os.replace) is atomic",
]


class Crash(BaseException):
    pass


class FS:
    def __init__(self, crash_at, torn):
        self.n = 0
        self.crash_at = crash_at
        self.torn = torn
        self.dead = False
        self.trace = []

    def tick(self, what):
        if self.dead:
            return
        self.n += 1
        self.trace.append(what)
        if self.n == self.crash_at:
            self.dead = True
            raise Crash(what)


class WFile:
    """buffered file: Python-level writes accumulate; one FS event per flush at close"""

    def __init__(self, fs, f, name):
        self.fs, self.f, self.name = fs, f, name
        self.buf = None

    def write(self, b):
        self.buf = b if self.buf is None else self.buf + b
        return len(b)

    def _flush(self):
        if self.buf is None:
            return
        b, self.buf = self.buf, None
        try:
            self.fs.tick(("flush", self.name))
        except Crash:
            if self.fs.torn == 1:
                self.f.write(b[: len(b) // 2])
                self.f.flush()
            raise
        self.f.write(b)

    def close(self):
        try:
            self._flush()
        finally:
            self.f.close()

    def __enter__(self):
        return self

    def __exit__(self, *a):
        if self.fs.dead:
            self.f.close()
            return False
        self.close()
        return False

    def __getattr__(self, k):
        return getattr(self.f, k)


FSREF = [None]
_orig = {}


def _install():
    if _orig:
        return
    _orig.update(open=pathlib.Path.open, mkdir=pathlib.Path.mkdir, unlink=pathlib.Path.unlink, replace=os.replace, rmtree=shutil.rmtree,
                 preplace=pathlib.Path.replace, prename=pathlib.Path.rename, rename=os.rename)  # fmt: skip

    def _open(self, mode="r", *a, **k):
        fs = FSREF[0]
        if fs is None or not any(c in mode for c in "wax+"):
            return _orig["open"](self, mode, *a, **k)
        fs.tick(("open", self.name))
        return WFile(fs, _orig["open"](self, mode, *a, **k), self.name)

    def _mkdir(self, *a, **k):
        fs = FSREF[0]
        if fs is not None:
            fs.tick(("mkdir", self.name))
        return _orig["mkdir"](self, *a, **k)

    def _unlink(self, *a, **k):
        fs = FSREF[0]
        if fs is not None:
            fs.tick(("unlink", self.name))
        return _orig["unlink"](self, *a, **k)

    def _replace(src, dst, *a, **k):
        fs = FSREF[0]
        if fs is not None:
            fs.tick(("replace", os.path.basename(str(dst))))
        return _orig["replace"](src, dst, *a, **k)

    def _rename(src, dst, *a, **k):
        fs = FSREF[0]
        if fs is not None:
            fs.tick(("rename", os.path.basename(str(dst))))
        return _orig["rename"](src, dst, *a, **k)

    def _preplace(self, target):
        fs = FSREF[0]
        if fs is not None:
            fs.tick(("replace", os.path.basename(str(target))))
        return _orig["preplace"](self, target)

    def _prename(self, target):
        fs = FSREF[0]
        if fs is not None:
            fs.tick(("rename", os.path.basename(str(target))))
        return _orig["prename"](self, target)

    def _rmtree(path, *a, **k):
        fs = FSREF[0]
        if fs is not None:
            fs.tick(("rmtree", os.path.basename(str(path))))
        return _orig["rmtree"](path, *a, **k)

    pathlib.Path.open = _open
    pathlib.Path.mkdir = _mkdir
    pathlib.Path.unlink = _unlink
    pathlib.Path.replace = _preplace
    pathlib.Path.rename = _prename
    os.replace = _replace
    os.rename = _rename
    shutil.rmtree = _rmtree


def _stored_complete(folder, t):
    """per function: number of element files that hold a complete value (read natively); for a function
    without MapSpec 1 if its output files are complete, else 0"""
    from engine import shims

    def complete(path):
        with open(path, "rb") as fh:
            b = fh.read()
        if shims.TOK:
            return len(b) == 11 and b.startswith(b"TOK")
        try:
            import cloudpickle

            cloudpickle.loads(b)
            return True
        except Exception:  # noqa: BLE001
            return False

    out = {}
    for fs in t.funcs:
        if not (fs.mapspec and tmpl.parse_spec(fs.mapspec)[0]):
            # a function without MapSpec: one file per output, stored (1) or not (0)
            files = [os.path.join(folder, "outputs", o + ".cloudpickle") for o in fs.outputs]
            out[fs.name] = int(all(os.path.isfile(f) and complete(f) for f in files))
            continue
        counts = []
        for o in fs.outputs:
            d = os.path.join(folder, "outputs", o)
            n = 0
            if os.path.isdir(d):
                for f in os.listdir(d):
                    if f.endswith(".pickle"):
                        with open(os.path.join(d, f), "rb") as fh:
                            b = fh.read()
                        if shims.TOK:
                            ok = len(b) == 11 and b.startswith(b"TOK")
                        else:
                            try:
                                import cloudpickle

                                cloudpickle.loads(b)
                                ok = True
                            except Exception:  # noqa: BLE001
                                ok = False
                        n += ok
            counts.append(n)
        out[fs.name] = min(counts) if counts else 0
    return out


def resume(tid, storage, crash_at, torn, second_crash, n0, n1, n2, *vals):  # noqa: C901
    """first run dies at FS event `crash_at`; (optionally the first resume dies as well;) the resumed
    run with the same inputs and cleanup=False completes, equals the uninterrupted result and does
    not recompute elements that were completely stored"""
    L.reset()
    _install()
    t = T[tid]
    n, v = tmpl.sizes_and_values(n0, n1, n2, vals)
    crash_at = L.concretize(crash_at, 1, 80)
    torn = L.concretize(torn, 0, 2)
    second_crash = L.concretize(second_crash, 0, 80)
    try:
        with NoTracing():
            from engine import shims

            shims.TOK.clear()
            log = tmpl.Log()
            p = tmpl.make_pipeline(t.funcs, log)
            folder = L.scratch_dir()
            os.rmdir(folder)  # the run creates it
        inputs = t.inputs(n, v)
        ref, ncalls = tmpl.reference(t.funcs, inputs)
        fsx = FS(crash_at, torn)
        FSREF[0] = fsx
        try:
            p.map(dict(inputs), run_folder=folder, storage=storage, parallel=False)
        except Crash:
            pass
        finally:
            FSREF[0] = None
        crashes = 1
        if second_crash:
            with NoTracing():
                p_mid = tmpl.make_pipeline(t.funcs, log)
            fs2 = FS(second_crash, torn)
            FSREF[0] = fs2
            try:
                p_mid.map(dict(inputs), run_folder=folder, storage=storage, parallel=False, cleanup=False)
            except Crash:
                pass
            finally:
                FSREF[0] = None
            crashes = 2
        with NoTracing():
            stored = _stored_complete(folder, t) if os.path.isdir(folder) else {}
            before = {fs.name: log.count(fs.name) for fs in t.funcs}
            p2 = tmpl.make_pipeline(t.funcs, log)
        res = p2.map(dict(inputs), run_folder=folder, storage=storage, parallel=False, cleanup=False)
        if not tmpl.compare_results(t.funcs, res, ref):
            return False
        for fs in t.funcs:
            again = log.count(fs.name) - before[fs.name]
            is_map0 = bool(fs.mapspec and tmpl.parse_spec(fs.mapspec)[0])
            if fs.name in stored and (storage == "file_array" or not is_map0):
                if again > ncalls[fs.name] - stored[fs.name]:
                    return fail("an element that was completely stored before the interruption was recomputed")
            is_map = bool(fs.mapspec and tmpl.parse_spec(fs.mapspec)[0])
            if (storage == "file_array" or not is_map) and log.count(fs.name) > ncalls[fs.name] + crashes:
                return fail("more recomputation than the interrupted invocations can explain")
        return True
    finally:
        FSREF[0] = None
        L.cleanup_dirs()


def user_failure(tid, storage, fname, k, n0, n1, n2, *vals):
    """a user function raises in its k-th call; re-running with cleanup=False completes and recomputes only what was not stored"""
    L.reset()
    t = T[tid]
    n, v = tmpl.sizes_and_values(n0, n1, n2, vals)
    k = L.concretize(k, 1, 9)
    try:
        with NoTracing():
            from engine import shims

            shims.TOK.clear()
            log = tmpl.Log()
            plan = FailPlan(fname, k, 0)
            p = tmpl.make_pipeline(t.funcs, log, fail_at=plan)
            folder = L.scratch_dir()
        inputs = t.inputs(n, v)
        ref, ncalls = tmpl.reference(t.funcs, inputs)
        try:
            p.map(dict(inputs), run_folder=folder, storage=storage, parallel=False)
        except ValueError:
            pass
        with NoTracing():
            plan.armed = False
            plan.failed_args = None
            stored = _stored_complete(folder, t)
            before = {fs.name: log.count(fs.name) for fs in t.funcs}
        res = p.map(dict(inputs), run_folder=folder, storage=storage, parallel=False, cleanup=False)
        if not tmpl.compare_results(t.funcs, res, ref):
            return False
        for fs in t.funcs:
            again = log.count(fs.name) - before[fs.name]
            is_map = bool(fs.mapspec and tmpl.parse_spec(fs.mapspec)[0])
            if fs.name in stored and (storage == "file_array" or not is_map) and again > ncalls[fs.name] - stored[fs.name]:
                return fail("an element that was completely stored before the failure was recomputed")
            if (storage == "file_array" or not is_map) and log.count(fs.name) > ncalls[fs.name] + 1:
                return fail("more recomputation than the failed invocation can explain")
        return True
    finally:
        L.cleanup_dirs()


def count_events(tid, storage, sizes=(2, 2, 2)):
    """number of FS events of an uninterrupted run (concrete dry run)"""
    _install()
    t = T[tid]
    log = tmpl.Log()
    p = tmpl.make_pipeline(t.funcs, log)
    folder = L.scratch_dir()
    os.rmdir(folder)
    fsx = FS(-1, 0)
    FSREF[0] = fsx
    try:
        p.map(t.inputs(list(sizes), list(range(1, 13))), run_folder=folder, storage=storage, parallel=False)
    finally:
        FSREF[0] = None
        L.cleanup_dirs()
    return fsx.n, fsx.trace


CANARIES = {}


def _canary_non_atomic_dump():
    """(the pre-fix behaviour, F24) files are written in place: a crash during the write leaves a torn file under
    the final name.  The earlier canary "an existing element file counts as present" became an equivalent mutant
    once writes were made atomic, so it was replaced by this one."""
    import sys

    import cloudpickle

    import pipefunc._utils as U

    orig = U.dump

    def dump(obj, path):
        path.parent.mkdir(parents=True, exist_ok=True)
        with path.open("wb") as f:
            cloudpickle.dump(obj, f)

    for name, mod in list(sys.modules.items()):
        if name.startswith("pipefunc") and mod is not None and getattr(mod, "dump", None) is orig:
            mod.dump = dump


CANARIES["non_atomic_dump"] = _canary_non_atomic_dump


def obligations(tier):
    thorough = tier == "thorough"
    obs = []
    I = "int"
    cases = [("T1", "file_array"), ("T5", "file_array"), ("T5", "dict"), ("T8", "file_array"), ("T7", "dict")]
    if thorough:
        cases += [("TN3", "file_array"), ("T13", "file_array"), ("T7", "file_array"), ("T4", "dict"), ("T6", "file_array"), ("T16", "file_array"), ("T1", "dict")]
    chunk = 8
    for tid, st in cases:
        t = T[tid]
        nmax, _ = count_events(tid, st, (2, 2, 2))
        for lo in range(1, nmax + 1, chunk):
            hi = min(nmax, lo + chunk - 1)
            obs.append(
                Ob(
                    f"resume_{tid}_{st}_{lo}",
                    [("crash_at", I), ("torn", I), ("second_crash", I)] + MAP_PARAMS,
                    [f"{lo} <= crash_at <= {hi}", "0 <= torn <= 2", "second_crash == 0"] + (tmpl.size_pre(t, 2) if (thorough or t.axes == 1) else ["1 <= n0 <= 2 and n1 == 2 and n2 == 1"]),
                    f"H.resume({tid!r}, {st!r}, crash_at, torn, second_crash, {MAP_ARGS})",
                    timeout=600,
                    flags=("tokpickle",),
                    bounds=f"{tid}, {st}: crash at FS event {lo}..{hi} of {nmax} (for 2x2x2; sizes 1..2 symbolic), torn kind symbolic (before / half / empty); "
                    "resume with cleanup=False; values unbounded",
                    canaries=("non_atomic_dump",) if (tid, st, lo) == ("T1", "file_array", 17) else (),
                )
            )
        if thorough and (tid, st) in (("T1", "file_array"), ("T7", "dict")):
            for lo in range(1, nmax + 1, 6):
                hi = min(nmax, lo + 5)
                obs.append(
                    Ob(
                        f"resume2_{tid}_{st}_{lo}",
                        [("crash_at", I), ("torn", I), ("second_crash", I)] + MAP_PARAMS,
                        [f"{lo} <= crash_at <= {hi}", "torn == 1", f"1 <= second_crash <= {nmax}", "n0 == 2 and n1 == 2 and n2 == 1"],
                        f"H.resume({tid!r}, {st!r}, crash_at, torn, second_crash, {MAP_ARGS})",
                        timeout=1200,
                        flags=("tokpickle",),
                        bounds=f"{tid}, {st}: two successive crashes (first at {lo}..{hi}, second at 1..{nmax} of the first resume), torn writes",
                    )
                )
    for tid, fname, st in (("T1", "f", "file_array"), ("T5", "f", "file_array"), ("T5", "tot", "file_array"), ("T8", "g", "file_array"), ("T13", "f", "dict"),
                           ("TN3", "f", "file_array"), ("TN3", "tot", "dict")):
        t = T[tid]
        obs.append(
            Ob(
                f"userfail_{tid}_{fname}_{st}",
                [("k", I)] + MAP_PARAMS,
                ["1 <= k <= 5", " and ".join(f"0 <= v{i} <= 1" for i in range(7)) + " and " + " and ".join(f"v{i} == 0" for i in range(7, 12))] + tmpl.size_pre(t, 2),
                f"H.user_failure({tid!r}, {st!r}, {fname!r}, k, {MAP_ARGS})",
                timeout=400,
                flags=("tokpickle",),
                bounds=f"{tid}: {fname} raises in its k-th call (1..5), then re-run with cleanup=False; storage {st}; input values 0..1 (the error annotation formats them)",
            )
        )
    return obs

"""C06 - running a map in pieces (fixed_indices, learners) equals running it whole."""
from __future__ import annotations

import numpy as np

from engine.ob import Ob
from harness import lib as L
from harness import tmpl
from harness.lib import NoTracing, fail
from harness.tmpl import MAP_ARGS, MAP_PARAMS, T

from pipefunc.map import load_outputs

WHY = L.WHY
OUTSIDE = "adaptive.Runner with real executors, to_slurm_run, create_learners_from_sweep (one learner = one whole map, C01), sizes > 4"
ASSUMPTIONS = ["axis sizes, cut points and part orders are realised (case split); values unbounded"]

# template -> independent axes that may be fixed: axis name -> index of the size in n[]
INDEP = {
    "T1": {"i": 0},
    "T2": {"i": 0},
    "T3": {"i": 0, "j": 1},
    "T6": {"i": 0},
    "T7": {"i": 0},
    "T9": {"i": 0, "j": 1},
    "T10": {"i": 0, "k": 2},
    "T13": {"i": 0},
    "T14": {"i": 0, "j": 1},
    "T16": {"i": 0},
    "T18": {"k": 1},
    "T7p": {"i": 0},
    "T21": {"i": 0},
    "T23": {"j": 1},
}
REDUCED = {"T4": ["i", "j"], "T5": ["i", "j"], "T8": ["i"], "T12": ["i", "j"], "T10": ["j"], "T18": ["i"], "T21": ["j"], "T23": ["i"], "T24": ["i", "j"]}


NMODES = 7


def _parts(mode, size):
    """a partition of range(size) into fixed_indices values"""
    nonempty = lambda ps: [p for p in ps if len(range(*p.indices(size)))]  # noqa: E731
    if mode == 0:
        return list(range(size))
    if mode == 1:
        return nonempty([slice(0, 1), slice(1, size)])
    if mode == 2:
        return nonempty([slice(0, 2), slice(2, size)])
    if mode == 3:
        return nonempty([slice(0, size, 2), slice(1, size, 2)])
    if mode == 4:
        return [slice(None, None, -1)]
    if mode == 5:
        return nonempty([slice(size - 1, None, -2), slice(size - 2, None, -2)] if size > 1 else [slice(None, None, -2)])
    return [-(k + 1) for k in range(size)]


def _selected(part, size):
    if isinstance(part, slice):
        return set(range(*part.indices(size)))
    return {part % size}


def _elem_axis_index(fs, axis):
    ins, outs = tmpl.parse_spec(fs.mapspec)
    axes = outs[0][1]
    return axes.index(axis) if axis in axes else None


def pieces(tid, axis, storage, mode, rev, n0, n1, n2, *vals):  # noqa: C901, PLR0912
    L.reset()
    t = T[tid]
    n, v = tmpl.sizes_and_values(n0, n1, n2, vals)
    mode = L.concretize(mode, 0, NMODES - 1)
    size = n[INDEP[tid][axis]]
    try:
        with NoTracing():
            from engine import shims

            shims.TOK.clear()
            log = tmpl.Log()
            p = tmpl.make_pipeline(t.funcs, log)
            folder = L.scratch_dir()
        inputs = t.inputs(n, v)
        ref, ncalls = tmpl.reference(t.funcs, inputs)
        parts = _parts(mode, size)
        if rev:
            parts = list(reversed(parts))
        done = set()
        for k, part in enumerate(parts):
            res = p.map(dict(inputs), run_folder=folder, storage=storage, parallel=False, cleanup=(k == 0), fixed_indices={axis: part})
            done |= _selected(part, size)
            # exactly the selected elements are present
            for fs in t.funcs:
                if not (fs.mapspec and tmpl.parse_spec(fs.mapspec)[0]):
                    continue
                pos = _elem_axis_index(fs, axis)
                if pos is None:
                    continue
                for o in fs.outputs:
                    arr = res[o].store.to_array()  # what the run folder holds now
                    sh = tmpl.shape_of(ref[o])
                    if tuple(arr.shape) != sh:
                        return fail("shape of a partially filled output")
                    mk = np.ma.getmaskarray(arr)
                    for idx in L.indices(sh):
                        present = not bool(mk[idx])
                        if present != (idx[pos] in done):
                            return fail("a partial run did not compute exactly the selected elements")
                        if present and not (arr[idx] == L.get(ref[o], idx)):
                            return fail("partial result differs from the denotation")
        if done != set(range(size)):
            return True  # not a partition (guard; cannot happen for the modes above)
        for fs in t.funcs:
            for o in fs.outputs:
                if not tmpl.same_value(load_outputs(o, run_folder=folder), ref[o]):
                    return fail("data stored by the pieces differ from a single full run")
        if not tmpl.compare_calls(t.funcs, log, ncalls):
            return fail("an element was computed twice (or not at all)")
        res = p.map(dict(inputs), run_folder=folder, storage=storage, parallel=False, cleanup=False)
        if not tmpl.compare_calls(t.funcs, log, ncalls):
            return fail("the final full run recomputed something")
        return tmpl.compare_results(t.funcs, res, ref)
    finally:
        L.cleanup_dirs()


def reject(tid, kind, idx, n0, n1, n2, *vals):
    """fixing a reduced axis, an unknown axis or an out-of-range index is rejected before any call"""
    L.reset()
    t = T[tid]
    n, v = tmpl.sizes_and_values(n0, n1, n2, vals)
    with NoTracing():
        log = tmpl.Log()
        p = tmpl.make_pipeline(t.funcs, log)
    inputs = t.inputs(n, v)
    if kind == "reduced":
        fixed = {REDUCED[tid][L.concretize(idx, 0, len(REDUCED[tid]) - 1)]: 0}  # every reduced axis of the template
    elif kind == "unknown":
        fixed = {"zz": 0}
    else:
        axis = sorted(INDEP[tid])[0]
        size = n[INDEP[tid][axis]]
        idx = L.concretize(idx, -5, 5)
        if -size <= idx < size:
            return True
        fixed = {axis: idx}
    try:
        p.map(dict(inputs), storage="dict", parallel=False, fixed_indices=fixed)
    except (ValueError, IndexError):
        return len(log) == 0 or fail("user code ran before the rejection")
    return fail("invalid fixed_indices accepted")


def learners(tid, storage, split, order_sel, n0, n1, n2, *vals):
    """create_learners + execution of the learners (generation by generation, symbolic order inside) == full run"""
    L.reset()
    from adaptive import runner

    from pipefunc.map.adaptive import create_learners

    t = T[tid]
    n, v = tmpl.sizes_and_values(n0, n1, n2, vals)
    order_sel = L.concretize(order_sel, 0, 2)
    try:
        with NoTracing():
            from engine import shims

            shims.TOK.clear()
            log = tmpl.Log()
            p = tmpl.make_pipeline(t.funcs, log)
            folder = L.scratch_dir()
        inputs = t.inputs(n, v)
        ref, ncalls = tmpl.reference(t.funcs, inputs)
        ld = create_learners(p, dict(inputs), folder, storage=storage, split_independent_axes=split)
        if order_sel == 0:
            ld.simple_run()
        else:
            keys = list(ld.data)
            if order_sel == 2:
                keys.reverse()
            ngen = max(len(g) for g in ld.data.values())
            for gi in range(ngen):  # respects generations
                for key in keys:
                    gens = ld.data[key]
                    if gi < len(gens):
                        ls = list(gens[gi])
                        if order_sel == 2:
                            ls.reverse()
                        for lp in ls:
                            runner.simple(lp.learner)
        for fs in t.funcs:
            for o in fs.outputs:
                if not tmpl.same_value(load_outputs(o, run_folder=folder), ref[o]):
                    return fail("learners stored data that differ from a single full run")
        if not tmpl.compare_calls(t.funcs, log, ncalls):
            return fail("learners computed an element twice (or not at all)")
        res = p.map(dict(inputs), run_folder=folder, storage=storage, parallel=False, cleanup=False)
        if not tmpl.compare_calls(t.funcs, log, ncalls):
            return fail("the final full run recomputed something")
        return tmpl.compare_results(t.funcs, res, ref)
    finally:
        L.cleanup_dirs()


CANARIES = {}


def _canary_mask_axis():
    import pipefunc.map._run as R

    orig = R._mask_fixed_axes

    def m(fixed_indices, mapspec, shape, shape_mask):
        if fixed_indices and len(mapspec.output_indices) == 2 and len(fixed_indices) == 1:
            (ax, v), = fixed_indices.items()
            other = [a for a in mapspec.output_indices if a != ax]
            if other and isinstance(v, int) and shape[0] == shape[1]:
                fixed_indices = {other[0]: v}
        return orig(fixed_indices, mapspec, shape, shape_mask)

    R._mask_fixed_axes = m


CANARIES["fixed_axis_swapped_for_square_shapes"] = _canary_mask_axis


def obligations(tier):
    thorough = tier == "thorough"
    obs = []
    hi = 3 if thorough else 2
    P = [("mode", "int")] + MAP_PARAMS
    for tid, axes in INDEP.items():
        t = T[tid]
        for axis in axes:
            storages = ["file_array", "dict"] if (thorough or tid in ("T3", "T10")) else ["file_array"]
            for st in storages:
                sz = 3 if ((thorough and t.axes < 3) or t.axes == 1) else 2
                spre = tmpl.size_pre(t, sz)
                if t.axes == 3 and not thorough:
                    spre = ["n0 == 2 and n1 == 2 and n2 == 2"]
                for rev in (False, True):
                  obs.append(
                    Ob(
                        f"pieces_{tid}_{axis}_{st}" + ("_rev" if rev else ""),
                        P,
                        [f"0 <= mode < {NMODES}"] + spre,
                        f"H.pieces({tid!r}, {axis!r}, {st!r}, mode, {rev}, {MAP_ARGS})",
                        timeout=500,
                        flags=("tokpickle",),
                        bounds=f"{tid} axis {axis}: partition into ints / negative ints / two slices cut at 1 or 2 / step-2 slices / negative-step slices, "
                        f"{'reversed' if rev else 'given'} order, cleanup=False; sizes 1..{sz}; storage {st}; after each part exactly the selected elements exist; final full run calls nothing",
                        canaries=("fixed_axis_swapped_for_square_shapes",) if (tid, axis, st, rev) == ("T3", "i", "dict", False) else (),
                    )
                )
    for tid in REDUCED:
        obs.append(Ob(f"reject_reduced_{tid}", [("idx", "int")] + MAP_PARAMS, [f"0 <= idx < {len(REDUCED[tid])}"] + tmpl.size_pre(T[tid], 2),
                      f"H.reject({tid!r}, 'reduced', idx, {MAP_ARGS})", timeout=120, bounds=f"{tid}: fixing a reduced axis (each of {REDUCED[tid]})"))  # fmt: skip
    for tid in ("T1", "T3", "T10"):
        obs.append(Ob(f"reject_unknown_{tid}", [("idx", "int")] + MAP_PARAMS, ["idx == 0"] + tmpl.size_pre(T[tid], 2),
                      f"H.reject({tid!r}, 'unknown', idx, {MAP_ARGS})", timeout=120, bounds=f"{tid}: unknown axis name"))  # fmt: skip
        obs.append(Ob(f"reject_range_{tid}", [("idx", "int")] + MAP_PARAMS, ["-5 <= idx <= 5"] + tmpl.size_pre(T[tid], hi),
                      f"H.reject({tid!r}, 'range', idx, {MAP_ARGS})", timeout=200, bounds=f"{tid}: index outside [-size, size)"))  # fmt: skip
    # learners share one in-memory store and have no "end of run" at which a memory backend would be persisted, so
    # "stores the data a full run stores" is observable through the run folder for file_array only (see DESIGN 11.5)
    ltids = ["T1", "T3", "T4", "T7", "T8", "T9", "T12", "T13", "T14"] + (["T5", "T6", "T10", "T16", "T18", "T22"] if thorough else [])
    for tid in ltids:
        t = T[tid]
        for st in ("file_array",):
            obs.append(
                Ob(
                    f"learners_{tid}_{st}",
                    [("split", "bool"), ("order_sel", "int")] + MAP_PARAMS,
                    ["0 <= order_sel <= 2"] + (["1 <= n0 <= 2 and 1 <= n1 <= 3 and n2 == 1"] if tid in ("T9", "T14") else tmpl.size_pre(t, 2)) + (["not split"] if tid in ("T8",) else []),
                    f"H.learners({tid!r}, {st!r}, split, order_sel, {MAP_ARGS})",
                    timeout=500,
                    flags=("tokpickle",),
                    bounds=f"{tid}: create_learners(split_independent_axes symbolic), simple_run or generation-wise in two orders; sizes 1..2; storage {st}",
                )
            )
    return obs

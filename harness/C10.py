"""C10 - structural rewrites preserve what a pipeline computes."""
from __future__ import annotations

import itertools

from engine.ob import Ob
from harness import lib as L
from harness import runt, tmpl
from harness.lib import NoTracing, fail
from harness.runt import R
from harness.tmpl import MAP_ARGS, MAP_PARAMS, T

WHY = L.WHY
OUTSIDE = "compositions of more than 3 rewrites, > 5 functions, resources / profiling attributes, a pickle round trip through another interpreter"
ASSUMPTIONS = ["rewrites are applied to concrete pipeline objects (natively); original and rewritten pipelines are then evaluated on the same symbolic inputs"]

I = "int"
VALS = [(f"v{i}", I) for i in range(6)]
VARGS = ", ".join(n for n, _ in VALS)


# ---- rewrites: each maps (pipeline, template) -> (new pipeline, name map old->new) -----------------
def rw_copy(p, t):
    return p.copy(), {}


def rw_pickle(p, t):
    import cloudpickle

    return cloudpickle.loads(cloudpickle.dumps(p)), {}


def rw_join(p, t):
    from pipefunc import Pipeline

    k = max(1, len(p.functions) // 2)
    p1 = Pipeline([f.copy() for f in p.functions[:k]])
    p2 = Pipeline([f.copy() for f in p.functions[k:]])
    return p1.join(p2), {}


def rw_or(p, t):
    from pipefunc import Pipeline

    p1 = Pipeline([p.functions[0].copy()])
    for f in p.functions[1:]:
        p1 = p1 | f
    return p1, {}


def rw_rename(p, t):
    q = p.copy()
    names = runt.all_names(t)
    ren = {names[0]: names[0] + "_x", names[-1]: names[-1] + "_y"}
    q.update_renames(ren, update_from="current")
    return q, ren


def rw_scope(p, t):
    q = p.copy()
    q.update_scope("sc", inputs="*", outputs="*")
    return q, {n: "sc." + n for n in runt.all_names(t)}


def rw_scope_roundtrip(p, t):
    q = p.copy()
    q.update_scope("sc", inputs="*", outputs="*")
    q.update_scope(None, inputs="*", outputs="*")
    return q, {}


def rw_nest_all(p, t):
    q = p.copy()
    outs = [o for fs in t for o in fs.outputs]
    q.nest_funcs("*", new_output_name=tuple(outs) if len(outs) > 1 else outs[0])
    return q, {}


def rw_rename_ip(p, t):
    """in place (only applied to an object that an earlier structural rewrite produced, never to the original)"""
    names = runt.all_names(t)
    ren = {names[0]: names[0] + "_x", names[-1]: names[-1] + "_y"}
    p.update_renames(ren, update_from="current")
    return p, ren


def rw_scope_ip(p, t):
    p.update_scope("sc", inputs="*", outputs="*")
    return p, {n: "sc." + n for n in runt.all_names(t)}


def rw_unscope_ip(p, t):
    p.update_scope(None, inputs="*", outputs="*")
    return p, {n: n.split(".", 1)[1] for n in runt.all_names(t) if "." in n}


INPLACE = ("rename_ip", "scope_ip", "unscope_ip")
REWRITES = {
    "rename_ip": rw_rename_ip,
    "scope_ip": rw_scope_ip,
    "unscope_ip": rw_unscope_ip,
    "copy": rw_copy,
    "pickle": rw_pickle,
    "join": rw_join,
    "or": rw_or,
    "rename": rw_rename,
    "scope": rw_scope,
    "scope_roundtrip": rw_scope_roundtrip,
    "nest_all": rw_nest_all,
}


def _compose(p, t, ops):
    ren = {}
    for op in ops:
        inv = {v: k for k, v in ren.items()}
        # the object has been used before it is rewritten: its cached structural properties are populated
        # (a rewrite must not leave them stale, also on an object that came out of a copy / pickle round trip)
        runt.warm(p)
        p, r = REWRITES[op](p, _renamed_template(t, ren))
        # compose the renamings (keys are original names)
        new = {}
        for orig in runt.all_names(t):
            cur = ren.get(orig, orig)
            new[orig] = r.get(cur, cur)
        ren = {k: v for k, v in new.items() if k != v}
    return p, ren


def _renamed_template(t, ren):
    out = []
    for fs in t:
        g = runt.F(fs.name, [ren.get(x, x) for x in fs.params], [ren.get(x, x) for x in fs.outputs],
                   defaults={ren.get(k, k): v for k, v in fs.defaults.items()}, bound={ren.get(k, k): v for k, v in fs.bound.items()})  # fmt: skip
        out.append(g)
    return out


def rewrite_run(rid, ops, out_sel, nested_kwargs, v0, v1, v2, v3, v4, v5):
    """original and rewritten pipeline agree on every retained output for all root arguments"""
    L.reset()
    t = R[rid]
    vals = (v0, v1, v2, v3, v4, v5)
    with NoTracing():
        log, log2 = [], []
        p = runt.make(t, log)
        p_twin = runt.make(t, log2)  # untouched twin: the original must stay as it was
        q, ren = _compose(p, t, ops)
        runt.warm(p)
        runt.warm(q)
        outs = [o for fs in t for o in fs.outputs]
    out_sel = L.concretize(out_sel, 0, len(outs) - 1)
    out = outs[out_sel]
    names = runt.all_names(t)
    value_of = {nm: vals[k % len(vals)] for k, nm in enumerate(names)}
    kw = {a: value_of[a] for a in p_twin.root_args(out)}
    exp, called, used, memo = runt.ref_eval(t, out, kw)
    inv = {v: k for k, v in ren.items()}
    # a rewritten pipeline may need more root arguments for this output (nesting merges the inputs of the nested
    # functions): supply every root argument it asks for, with the same value per (original) name
    with NoTracing():
        roots_q = q.root_args(ren.get(out, out))
    kw_q = {a: value_of[inv.get(a, a)] for a in roots_q if inv.get(a, a) in value_of}
    if nested_kwargs and any("." in k for k in kw_q):
        nested = {}
        for k, x in kw_q.items():
            if "." in k:
                sc, nm = k.split(".", 1)
                nested.setdefault(sc, {})[nm] = x
            else:
                nested[k] = x
        kw_q = nested
    got_q = q(ren.get(out, out), **kw_q)
    if not (got_q == exp):
        return fail("rewritten pipeline computes a different value")
    if not (p(out, **kw) == exp):
        return fail("the original pipeline changed")
    return True


def independence(rid, op, v0, v1, v2, v3, v4, v5):
    """a later mutation of the rewritten pipeline does not affect the original, and vice versa"""
    L.reset()
    t = R[rid]
    vals = (v0, v1, v2, v3, v4, v5)
    with NoTracing():
        log = []
        p = runt.make(t, log)
        q, ren = _compose(p, t, [op])
        dparam = next((prm for fs in t for prm in fs.defaults if prm not in fs.bound), None)
        out = t[-1].outputs[0]
        runt.warm(p, out)
    kw = {a: x for a, x in zip(p.root_args(out), vals) if a != dparam}
    exp, _, _, _ = runt.ref_eval(t, out, kw)
    bfs = next((fs for fs in t if fs.bound), None)
    if bfs is not None:
        # update_bound on a function of one object must not leak into the other (the functions are copies)
        with NoTracing():
            q2, ren2 = _compose(p, t, [op])
        bprm = next(iter(bfs.bound))
        kwb = {a: x for a, x in zip(p.root_args(out), vals)}
        expb, _, _, _ = runt.ref_eval(t, out, kwb)
        qf = next(f for f in q2.functions if f.__name__ == bfs.name)
        bname = next(x for x in qf.parameters if x == bprm or x.endswith("." + bprm) or x == ren2.get(bprm))
        qf.update_bound({bname: v5})
        if not (p(out, **kwb) == expb):
            return fail("update_bound on the rewritten pipeline changed the original")
    if dparam is not None:
        q.update_defaults({ren.get(dparam, dparam): v5})
        if not (p(out, **kw) == exp):
            return fail("mutating the rewritten pipeline changed the original")
        p.update_defaults({dparam: v4})
        t2 = _with_default(t, dparam, v5)
        exp_q, _, _, _ = runt.ref_eval(t2, out, kw)
        if not (q(ren.get(out, out), **{ren.get(a, a): x for a, x in kw.items()}) == exp_q):
            return fail("mutating the original changed the rewritten pipeline")
    return True


def _with_default(t, prm, val):
    out = []
    for fs in t:
        d = dict(fs.defaults)
        if prm in d:
            d[prm] = val
        out.append(runt.F(fs.name, fs.params, fs.outputs, defaults=d, bound=fs.bound, renamed=fs.renamed))
    return out


def nest_subset(rid, subset_sel, out_sel, v0, v1, v2, v3, v4, v5):
    """nest_funcs over a connected subset of functions: all retained outputs keep their values"""
    L.reset()
    t = R[rid]
    vals = (v0, v1, v2, v3, v4, v5)
    with NoTracing():
        subsets = _nestable_subsets(t)
    subset_sel = L.concretize(subset_sel, 0, len(subsets) - 1)
    sub = subsets[subset_sel]
    with NoTracing():
        log = []
        p = runt.make(t, log)
        q = p.copy()
        names = [o for fs in t if fs.name in sub for o in fs.outputs]
        q.nest_funcs(set((tuple(fs.outputs) if len(fs.outputs) > 1 else fs.outputs[0]) for fs in t if fs.name in sub), new_output_name=tuple(names))
        runt.warm(q)
        outs = [o for fs in t for o in fs.outputs]
    out_sel = L.concretize(out_sel, 0, len(outs) - 1)
    out = outs[out_sel]
    kw = {a: x for a, x in zip(p.root_args(out), vals)}
    exp, _, _, _ = runt.ref_eval(t, out, kw)
    try:
        kwq = {a: kw[a] for a in q.root_args(out)} if set(q.root_args(out)) <= set(kw) else None
    except Exception:  # noqa: BLE001
        kwq = None
    if kwq is None:
        # nesting merges the inputs of the nested functions: supply all roots of the nested block
        kwq = {a: x for a, x in zip(q.root_args(out), vals)}
        exp, _, _, _ = runt.ref_eval(t, out, {a: kwq[a] for a in kwq if a in runt.all_names(t)})
    if not (q(out, **kwq) == exp):
        return fail("nest_funcs changed a value")
    return True


def _nestable_subsets(t):
    """pairs of functions connected by a producer-consumer edge (and triples in chains)"""
    prod = runt.producers(t)
    edges = set()
    for fs in t:
        for prm in fs.params:
            if prm in prod and prm not in fs.bound:
                edges.add((prod[prm][1].name, fs.name))
    edges = sorted(edges)
    subs = [set(e) for e in edges]
    for a, b in edges:
        for c, d in edges:
            if b == c:
                subs.append({a, b, d})
    uniq = []
    for s in subs:
        if s not in uniq and _nest_ok(t, s, edges):
            uniq.append(s)
    return sorted(sorted(s) for s in uniq)


def _nest_ok(t, s, edges):
    """nesting must not create a cycle: no path leaves the subset and re-enters it"""
    outside = {fs.name for fs in t} - s
    for o in outside:
        ins = any((a in s and b == o) for a, b in edges)
        outs = any((a == o and b in s) for a, b in edges)
        if ins and outs:
            return False
    return True


def nest_bound(rid, v0, v1, v2, v3, v4, v5):
    """after nest_funcs('*') the pipeline still computes the leaf from the original root arguments"""
    L.reset()
    t = R[rid]
    vals = (v0, v1, v2, v3, v4, v5)
    with NoTracing():
        log = []
        p = runt.make(t, log)
        q, _ = rw_nest_all(p, t)
        out = t[-1].outputs[0]
        runt.warm(p, out)
    kw = {a: x for a, x in zip(p.root_args(out), vals)}
    exp, _, _, _ = runt.ref_eval(t, out, kw)
    return bool(q(out, **kw) == exp) or fail("value")


def simplify(rid, conservative, v0, v1, v2, v3, v4, v5):
    """simplified_pipeline computes the same leaf value"""
    L.reset()
    t = R[rid]
    vals = (v0, v1, v2, v3, v4, v5)
    with NoTracing():
        log = []
        p = runt.make(t, log)
        out = t[-1].outputs[0]
        try:
            q = p.simplified_pipeline(out, conservatively_combine=conservative)
        except ValueError as e:
            if "No combinable nodes" in str(e):
                return True  # nothing to simplify
            raise
        runt.warm(p, out)
        runt.warm(q)
    kw = {a: x for a, x in zip(p.root_args(out), vals)}
    exp, _, _, _ = runt.ref_eval(t, out, kw)
    if not (q(out, **kw) == exp):
        return fail("simplified pipeline computes a different value")
    return bool(p(out, **kw) == exp) or fail("original changed")


def split(v0, v1):
    """split_disconnected: each part computes its outputs as before"""
    L.reset()
    t = R["R6"]
    with NoTracing():
        log = []
        p = runt.make(t, log)
        parts = p.split_disconnected()
    if len(parts) != 2:
        return fail("number of parts")
    for out, arg, x in (("b", "a", v0), ("d", "c", v1)):
        part = next(q for q in parts if out in q.output_to_func)
        exp, _, _, _ = runt.ref_eval(t, out, {arg: x})
        if not (part(out, **{arg: x}) == exp):
            return fail("a split part computes a different value")
    return True


def rewrite_map(tid, ops, n0, n1, n2, *vals):
    """map of the rewritten pipeline equals the denotation (up to the renaming)"""
    L.reset()
    t = T[tid]
    n, v = tmpl.sizes_and_values(n0, n1, n2, vals)
    with NoTracing():
        log = tmpl.Log()
        p = tmpl.make_pipeline(t.funcs, log)
        rt = [runt.F(fs.name, fs.params, fs.outputs, defaults=fs.defaults, bound=fs.bound) for fs in t.funcs]
        q, ren = _compose(p, rt, ops)
    inputs = t.inputs(n, v)
    ref, ncalls = tmpl.reference(t.funcs, inputs)
    res = q.map({ren.get(k, k): x for k, x in inputs.items()}, storage="dict", parallel=False)
    for fs in t.funcs:
        for o in fs.outputs:
            name = ren.get(o, o)
            if name not in res or not tmpl.same_value(res[name].output, ref[o]):
                return fail(f"map of the rewritten pipeline differs for {o}")
    res0 = p.map(dict(inputs), storage="dict", parallel=False)
    return tmpl.compare_results(t.funcs, res0, ref) or fail("original changed")


def add_axis(rid, n0, m, v0, v1, v2, v3, v4, v5):
    """add_mapspec_axis(p, axis=k) lifts the pipeline pointwise (m = 1: after renaming the lifted input)"""
    L.reset()
    t = R[rid]
    n0 = L.concretize(n0, 1, 3)
    with NoTracing():
        log = []
        p = runt.make(t, log)
        q = p.copy()
        out = t[-1].outputs[0]
        roots = list(p.root_args(out))
        lifted = roots[0]
        lifted_q = lifted
        if m:
            lifted_q = lifted + "_r"
            q.update_renames({lifted: lifted_q})
        q.add_mapspec_axis(lifted_q, axis="k")
        runt.warm(p, out)
    arr = [v0, v1, v2][:n0]
    others = {a: x for a, x in zip(roots[1:], (v3, v4, v5))}
    res = q.map({lifted_q: arr, **others}, storage="dict", parallel=False)
    prod = runt.producers(t)

    def depends(name):
        if name == lifted:
            return True
        if name not in prod:
            return False
        fs = prod[name][1]
        return any(depends(x) for x in fs.params if x not in fs.bound)

    for fs in t:
        for o in fs.outputs:
            if o not in res:
                continue
            if depends(o):
                got = res[o].output
                if tuple(getattr(got, "shape", ())) != (n0,):
                    return fail("a dependent output did not gain the new axis")
                for k in range(n0):
                    exp, _, _, _ = runt.ref_eval(t, o, {lifted: arr[k], **others})
                    if not (got[k] == exp):
                        return fail("slice of a lifted output differs from the original pipeline's result")
            else:
                kw = {a: others[a] for a in p.root_args(o) if a in others}
                exp, _, _, _ = runt.ref_eval(t, o, kw)
                if not (res[o].output == exp):
                    return fail("an output that does not depend on the lifted parameter changed")
    return True


CANARIES = {}


def _canary_copy_shares_functions():
    from pipefunc._pipeline._base import Pipeline

    orig = Pipeline.copy

    def cp(self, **update):
        q = orig(self, **update)
        if not update:
            q.functions = self.functions  # shallow: later mutations leak
        return q

    Pipeline.copy = cp


CANARIES["copy_shares_function_objects"] = _canary_copy_shares_functions


def obligations(tier):
    thorough = tier == "thorough"
    obs = []
    rids = ["R2", "R3", "R5", "R7", "R9", "R19"] + (["R1", "R4", "R8", "R10"] if thorough else [])
    singles = [(op,) for op in REWRITES if op not in INPLACE]
    pairs = [("copy", "rename"), ("rename", "scope"), ("join", "rename"), ("scope", "pickle"), ("pickle", "or"), ("scope_roundtrip", "rename"),
             # a mutating rewrite applied to an object that came out of a structural one (stale caches / lost back references)
             ("pickle", "scope_ip"), ("pickle", "rename_ip"), ("copy", "scope_ip"), ("or", "rename_ip"), ("or", "scope_ip"), ("join", "scope_ip"), ("copy", "rename_ip")]
    triples_q = [("scope", "pickle", "unscope_ip"), ("pickle", "scope_ip", "unscope_ip")]
    triples = [("copy", "rename", "scope"), ("join", "scope", "pickle"), ("rename", "or", "scope_roundtrip")]
    for rid in rids:
        t = R[rid]
        nouts = len([o for fs in t for o in fs.outputs])
        for ops in singles + pairs + triples_q + (triples if thorough else []):
            if "nest_all" in ops and rid in ("R6",):
                continue
            obs.append(
                Ob(
                    f"rw_{rid}_{'_'.join(ops)}",
                    [("out_sel", I), ("nested_kwargs", "bool")] + VALS,
                    [f"0 <= out_sel < {nouts}"] + ([] if any(o.startswith("scope") for o in ops) else ["not nested_kwargs"]),
                    f"H.rewrite_run({rid!r}, {list(ops)!r}, out_sel, nested_kwargs, {VARGS})",
                    timeout=300,
                    bounds=f"{rid}: rewrites {' -> '.join(ops)}; every output; root arguments unbounded; dotted keys and nested dicts for scopes",
                )
            )
        for op in ("copy", "pickle", "join", "rename", "scope"):
            if any(fs.defaults or fs.bound for fs in t):
                obs.append(
                    Ob(f"indep_{rid}_{op}", VALS, [], f"H.independence({rid!r}, {op!r}, {VARGS})", timeout=200,
                       bounds=f"{rid}: {op} then update_defaults / update_bound on one object does not affect the other",
                       canaries=("copy_shares_function_objects",) if (rid, op) == ("R3", "copy") else ())  # fmt: skip
                )
        for k, sub in enumerate(_nestable_subsets(t)):
            obs.append(
                Ob(f"nest_{rid}_{'_'.join(sub)}", [("subset_sel", I), ("out_sel", I)] + VALS, [f"subset_sel == {k}", f"0 <= out_sel < {nouts}"],
                   f"H.nest_subset({rid!r}, subset_sel, out_sel, {VARGS})", timeout=300,
                   bounds=f"{rid}: nest_funcs over the connected subset {sub}, every output")  # fmt: skip
            )

        obs.append(
            Ob(f"addaxis_{rid}", [("n0", I), ("m", I)] + VALS, ["1 <= n0 <= 3", "0 <= m <= 1"], f"H.add_axis({rid!r}, n0, m, {VARGS})", timeout=300,
               bounds=f"{rid}: add_mapspec_axis on the first root argument, axis length 1..3; every dependent output lifted pointwise, others unchanged")  # fmt: skip
        )
    for rid in ("R12", "R13", "R14", "R18", "R2", "R3", "R7"):
        obs.append(
            Ob(f"simplify_{rid}", [("conservative", "bool")] + VALS, [], f"H.simplify({rid!r}, conservative, {VARGS})", timeout=200,
               bounds=f"{rid}: simplified_pipeline (both conservatively_combine values)")  # fmt: skip
        )
    obs.append(
        Ob("nest_bound_R3", VALS, [], f"H.nest_bound('R3', {VARGS})", timeout=120,
           bounds="R3: nest_funcs('*') where a nested function has a bound parameter that no other function takes; called with the original root arguments")  # fmt: skip
    )
    obs.append(Ob("split_R6", [("v0", I), ("v1", I)], [], "H.split(v0, v1)", bounds="split_disconnected"))
    for tid in ("T1", "T3", "T4", "T8"):
        t = T[tid]
        for ops in (("copy",), ("pickle",), ("join",), ("rename",), ("scope",)) + ((("copy", "rename"), ("join", "scope")) if thorough else ()):
            obs.append(
                Ob(f"rwmap_{tid}_{'_'.join(ops)}", MAP_PARAMS, tmpl.size_pre(t, 2), f"H.rewrite_map({tid!r}, {list(ops)!r}, {MAP_ARGS})", timeout=300,
                   bounds=f"{tid}: map after {' -> '.join(ops)}; sizes 1..2; values unbounded")  # fmt: skip
            )
    return obs

"""C14 - cache containers conform to their replacement-policy model.

States are built through the public API only (puts of distinct keys give every abstract
LRU/score state), then one or two operations with symbolic opcode/key/value are applied
and the resulting state is *observed* through the public API (presence, get, len, and
for the LRU order a probing sequence of fresh puts), so nothing depends on the private
representation.
"""
from __future__ import annotations

import pathlib

from engine.ob import Ob
from harness import lib as L
from harness.lib import NoTracing, fail

import pipefunc.cache as C

WHY = L.WHY
OUTSIDE = "shared=True (manager processes), cross-process interleavings, the pickling guard, real file-system timestamps (logical clock instead)"
ASSUMPTIONS = [
    "keys are small ints (0..3) and are realised by hashing; values unbounded ints",
    "DiskCache: st_ctime_ns supplied by a strictly increasing logical clock (a later write has a later ctime)",
    "HybridCache: durations are floats modelled as reals",
]

FRESH = (10, 11, 12, 13)


# ---------------------------------------------------------------- LRU ----
class LruModel:
    def __init__(self, max_size):
        self.max_size = max_size
        self.order = []  # least recent first
        self.val = {}

    def put(self, k, v):
        if k in self.val:
            self.val[k] = v
            return "resident"
        if len(self.order) >= self.max_size:
            e = self.order.pop(0)
            del self.val[e]
        self.order.append(k)
        self.val[k] = v
        return "new"

    def touch(self, k):
        self.order.remove(k)
        self.order.append(k)

    def get(self, k):
        if k in self.val:
            self.touch(k)
            return self.val[k]
        return None


def _apply(c, m, op, k, v, alt):
    """apply one operation to cache `c` and model(s) `m` (a list of admissible models: a re-put
    of a resident key may or may not refresh its recency - the statement does not say)"""
    if op == 0:
        c.put(k, v)
        out = []
        for mm in m:
            r = mm.put(k, v)
            out.append(mm)
            if r == "resident" and alt:
                import copy

                m2 = copy.deepcopy(mm)
                m2.touch(k)
                out.append(m2)
        m[:] = out
        return True
    if op == 1:
        got = c.get(k)
        keep = [mm for mm in m if _eq(got, mm.val.get(k))]
        if not keep:
            return fail("get value")
        for mm in keep:
            mm.get(k)
        m[:] = keep
        return True
    if op == 2:
        keep = [mm for mm in m if bool(k in c) == (k in mm.val)]
        if not keep:
            return fail("contains")
        m[:] = keep
        return True
    if op == 3:
        keep = [mm for mm in m if len(c) == len(mm.val)]
        if not keep:
            return fail("len")
        m[:] = keep
        return True
    if op == 4:
        c.clear()
        for mm in m:
            mm.order.clear()
            mm.val.clear()
        return True
    return True


def _eq(a, b):
    if a is None or b is None:
        return a is None and b is None
    return a == b


def _observe_lru(c, models, max_size):
    """presence/values/len now, then probe the eviction order with fresh keys"""
    if len(c) > max_size:
        return fail("len exceeds max_size")
    # several models are admissible (a re-put of a resident key may or may not refresh its recency):
    # keep those that agree with what the cache reports now
    alive = [mm for mm in models if len(c) == len(mm.val) and all(bool(k in c) == (k in mm.val) for k in range(4))]
    if not alive:
        return fail("presence / len after op")
    # probing: each fresh put evicts exactly the model's least recent entry
    for f in FRESH[:max_size]:
        c.put(f, -f)
        nxt = []
        for mm in alive:
            mm.put(f, -f)
            if all(bool(k in c) == (k in mm.val) for k in list(range(4)) + list(FRESH)):
                nxt.append(mm)
        alive = nxt
        if not alive:
            return fail("eviction order (probe)")
        if len(c) > max_size:
            return fail("len exceeds max_size")
    return True


def lru(max_size, n, k0, k1, k2, w0, w1, w2, op1, a1, v1, op2, a2, v2):
    L.reset()
    a1, a2, op1, op2 = (L.concretize(x, 0, 5) for x in (a1, a2, op1, op2))
    c = C.LRUCache(max_size=max_size, shared=False)
    m = [LruModel(max_size)]
    for k, w in list(zip((k0, k1, k2), (w0, w1, w2)))[:n]:
        k = L.concretize(k, 0, 3)
        c.put(k, w)
        m[0].put(k, w)
    if not _apply(c, m, op1, a1, v1, True):
        return False
    if not _apply(c, m, op2, a2, v2, True):
        return False
    if not _observe_lru(c, m, max_size):
        return False
    return True


def lru_values(max_size, n, k0, k1, k2, w0, w1, w2, a1, v1, q):
    """a key is present exactly when get returns the value most recently put for it"""
    L.reset()
    a1, q = (L.concretize(x, 0, 4) for x in (a1, q))
    c = C.LRUCache(max_size=max_size, shared=False)
    m = LruModel(max_size)
    for k, w in list(zip((k0, k1, k2), (w0, w1, w2)))[:n]:
        k = L.concretize(k, 0, 3)
        c.put(k, w)
        m.put(k, w)
    c.put(a1, v1)
    m.put(a1, v1)
    present = q in c
    got = c.get(q)
    if present != (q in m.val):
        return fail("presence")
    if present and got != m.val[q]:
        return fail("stale or wrong value")
    if not present and got is not None:
        return fail("absent key returned a value")
    return True


# ------------------------------------------------------------- Simple ----
def simple(k0, k1, w0, w1, op, a, v, q):
    L.reset()
    k0, k1, a, q, op = (L.concretize(x, 0, 4) for x in (k0, k1, a, q, op))
    c = C.SimpleCache()
    ref = {}
    for k, w in ((k0, w0), (k1, w1)):
        c.put(k, w)
        ref[k] = w
    if op == 0:
        c.put(a, v)
        ref[a] = v
    elif op == 1:
        if not _eq(c.get(a), ref.get(a)):
            return fail("get")
    elif op == 4:
        c.clear()
        ref.clear()
    if len(c) != len(ref) or bool(q in c) != (q in ref):
        return fail("len/contains")
    if not _eq(c.get(q), ref.get(q)):
        return fail("value")
    return True


# ------------------------------------------------------------- Hybrid ----
def hybrid(max_size, aw10, dw10, k0, k1, k2, d0, d1, d2, g0, g1, g2, newk, newd, preclear=False, dpre=0.0):
    """fill the cache (max_size distinct keys, symbolic durations, g_i extra gets), then put a
    key; when the cache is full the evicted entry must have a minimal score and nothing raises"""
    L.reset()
    k0, k1, k2 = [L.concretize(x, 0, 3) for x in (k0, k1, k2)[:max_size]] + [k0, k1, k2][max_size:]
    newk = L.concretize(newk, 0, 3)
    g0, g1, g2 = [L.concretize(x, 0, 2) for x in (g0, g1, g2)[:max_size]] + [g0, g1, g2][max_size:]
    aw, dw = aw10 / 10, dw10 / 10
    c = C.HybridCache(max_size=max_size, access_weight=aw, duration_weight=dw, shared=False)
    if preclear:
        # an earlier life of the cache that was cleared must not influence later evictions
        c.put(7, 0, dpre)
        c.get(7)
        c.clear()
        if len(c) != 0 or 7 in c:
            return fail("clear")
    keys = [k0, k1, k2][:max_size]
    durs = [d0, d1, d2][:max_size]
    cnt = {}
    for k, d in zip(keys, durs):
        c.put(k, 100 + k, d)
        cnt[k] = 1
    for k, g in zip(keys, (g0, g1, g2)):
        for _ in range(g):
            if c.get(k) != 100 + k:
                return fail("get")
            cnt[k] += 1
    before = [k for k in keys if k in c]
    if len(before) != max_size:
        return fail("fill")
    c.put(newk, 7, newd)
    if len(c) > max_size:
        return fail("len exceeds max_size")
    if newk not in c or c.get(newk) != 7:
        return fail("new key missing")
    gone = [k for k in keys if k not in c and k != newk]
    if newk in keys:
        # re-put of a resident key: the statement does not say whether something is evicted
        return len(gone) <= 1
    if len(gone) != 1:
        return fail("not exactly one eviction")
    e = gone[0]
    ctot = sum(cnt.values())
    dtot = sum(durs)
    de = durs[keys.index(e)]
    for k, d in zip(keys, durs):
        # score(e) <= score(k), cross-multiplied by ctot*dtot (dtot == 0: duration term vanishes)
        if dtot > 0:
            lhs = aw * cnt[e] * dtot + dw * de * ctot
            rhs = aw * cnt[k] * dtot + dw * d * ctot
        else:
            lhs, rhs = aw * cnt[e], aw * cnt[k]
        # floats are modelled as reals while the implementation divides concrete counts in IEEE
        # arithmetic: exact ties differ by rounding, hence the (relative 1e-9) tolerance
        if lhs > rhs + 1e-9 * (lhs + rhs):
            return fail("evicted entry does not have the lowest score")
    return True


class _Clock:
    """stand-in for the `time` module inside pipefunc.cache: monotonic() returns the given instants"""

    def __init__(self, instants):
        self.instants = list(instants)
        self.i = 0

    def monotonic(self):
        v = self.instants[min(self.i, len(self.instants) - 1)]
        self.i += 1
        return v

    def __getattr__(self, name):
        import time

        return getattr(time, name)


def memo_hybrid(max_size, x0, x1, x2, t0, t1, t2, t3, t4, t5):
    """memoize(HybridCache) under an arbitrary non-decreasing clock: never raises, returns f(x)"""
    L.reset()
    x0, x1, x2 = (L.concretize(x, 0, 3) for x in (x0, x1, x2))
    orig = C.time
    C.time = _Clock((t0, t1, t2, t3, t4, t5))
    try:
        calls = []

        @C.memoize(cache=C.HybridCache(max_size=max_size, shared=False))
        def f(x):
            calls.append(x)
            return 3 * x + 1

        for x in (x0, x1, x2):
            if f(x) != 3 * x + 1:
                return fail("memoized value")
        return True
    finally:
        C.time = orig


# --------------------------------------------------------------- Disk ----
class _LogicalCtime:
    """Path.stat().st_ctime_ns from a strictly increasing logical clock bumped on every open-for-write"""

    def __init__(self):
        self.t = 0
        self.ct = {}
        self._open = pathlib.Path.open
        self._stat = pathlib.Path.stat

    def install(self):
        lc = self

        def _open(p, mode="r", *a, **k):
            f = lc._open(p, mode, *a, **k)
            if "w" in mode:
                lc.t += 1
                lc.ct[str(p)] = lc.t
            return f

        class _St:
            def __init__(self, st, ns):
                self._st, self.st_ctime_ns = st, ns

            def __getattr__(self, n):
                return getattr(self._st, n)

        def _stat(p, *a, **k):
            st = lc._stat(p, *a, **k)
            if str(p) in lc.ct:
                return _St(st, lc.ct[str(p)])
            return st

        pathlib.Path.open = _open
        pathlib.Path.stat = _stat

    def remove(self):
        pathlib.Path.open = self._open
        pathlib.Path.stat = self._stat


def disk(max_size, with_lru, k0, k1, w0, w1, op, a, v, q):
    """two puts, one symbolic operation, then observation through a DiskCache re-opened on the
    same directory without the in-memory layer (= the on-disk state) and through the cache itself"""
    L.reset()
    k0, k1, a, q, op = (L.concretize(x, 0, 4) for x in (k0, k1, a, q, op))
    with NoTracing():
        from engine import shims

        shims.TOK.clear()
    lc = _LogicalCtime()
    lc.install()
    try:
        d = L.scratch_dir()
        c = C.DiskCache(d, max_size=max_size, with_lru_cache=with_lru, lru_shared=False)
        files = LruModel(max_size)  # oldest-written first; a rewrite refreshes
        mem = {}

        def put(k, w):
            c.put(k, w)
            if k in files.val:
                files.touch(k)
            files.put(k, w)
            mem[k] = w

        put(k0, w0)
        put(k1, w1)
        if op == 0:
            put(a, v)
        elif op == 1:
            got = c.get(a)
            exp = mem.get(a) if with_lru else files.val.get(a)
            if not _eq(got, exp):
                return fail("get")
        elif op == 4:
            c.clear()
            files.order.clear()
            files.val.clear()
            mem.clear()
        if len(c) != len(files.val) or len(c) > max_size:
            return fail("len")
        reopened = C.DiskCache(d, max_size=max_size, with_lru_cache=False)
        if bool(q in reopened) != (q in files.val):
            return fail("evicted file is not the oldest")
        if not _eq(reopened.get(q), files.val.get(q)):
            return fail("on-disk value")
        present = q in c
        got = c.get(q)
        if present and got is None:
            return fail("present but get returns None")
        if not present and got is not None:
            return fail("absent but get returns a value")
        if present and got != mem[q]:
            return fail("stale value")
        return True
    finally:
        lc.remove()
        L.cleanup_dirs()


CANARIES = {}


def _canary_lru_front():
    orig = C.LRUCache.put

    def put(self, key, value):
        with self._cache_lock:
            self._cache_dict[key] = value
            if len(self._cache_queue) < self.max_size:
                self._cache_queue.append(key)
            else:
                ev = self._cache_queue.pop()  # evicts the most recent instead of the least recent
                self._cache_dict.pop(ev, None)
                self._cache_queue.append(key)

    C.LRUCache.put = put


CANARIES["lru_evict_mru"] = _canary_lru_front


def obligations(tier):
    I, F = "int", "float"
    obs = []
    thorough = tier == "thorough"
    KP = "0 <= k0 <= 3 and 0 <= k1 <= 3 and 0 <= k2 <= 3 and k0 != k1 and k0 != k2 and k1 != k2"
    for ms in (1, 2, 3):
        for n in range(0, ms + 1):
            ops = (0, 1) if not thorough else (0, 1, 2, 3, 4)
            obs.append(
                Ob(
                    f"lru_m{ms}_n{n}",
                    [(x, I) for x in ("k0", "k1", "k2", "w0", "w1", "w2", "op1", "a1", "v1", "op2", "a2", "v2")],
                    [KP, "0 <= a1 <= 3 and 0 <= a2 <= 3", "0 <= op1 <= 4 and 0 <= op2 <= 5"]
                    + ([] if thorough else ["op2 == 5"]),
                    f"H.lru({ms}, {n}, k0, k1, k2, w0, w1, w2, op1, a1, v1, op2, a2, v2)",
                    timeout=150 if not thorough else 900,
                    bounds=f"LRUCache(max_size={ms}, shared=False): {n} distinct puts (all orders), then 2 ops with symbolic opcode "
                    "(put/get/in/len/clear), key 0..3, value unbounded; then presence, len and eviction order probed with fresh puts",
                    canaries=("lru_evict_mru",) if (ms, n) == (2, 2) else (),
                )
            )
            obs.append(
                Ob(
                    f"lru_values_m{ms}_n{n}",
                    [(x, I) for x in ("k0", "k1", "k2", "w0", "w1", "w2", "a1", "v1", "q")],
                    [KP, "0 <= a1 <= 3 and 0 <= q <= 3"],
                    f"H.lru_values({ms}, {n}, k0, k1, k2, w0, w1, w2, a1, v1, q)",
                    timeout=60,
                    bounds="present <=> get returns the most recently put value (values unbounded)",
                )
            )
    obs.append(
        Ob(
            "simple",
            [(x, I) for x in ("k0", "k1", "w0", "w1", "op", "a", "v", "q")],
            ["0 <= k0 <= 3 and 0 <= k1 <= 3 and 0 <= a <= 3 and 0 <= q <= 3 and 0 <= op <= 4"],
            "H.simple(k0, k1, w0, w1, op, a, v, q)",
            bounds="SimpleCache: two puts, one symbolic op, observation",
        )
    )
    for ms in (1, 2, 3):
        for aw10, dw10 in ((5, 5), (10, 0), (0, 10), (3, 7)):
            if ms == 3 and not thorough and (aw10, dw10) != (5, 5):
                continue
            obs.append(
                Ob(
                    f"hybrid_m{ms}_w{aw10}_{dw10}",
                    [("k0", I), ("k1", I), ("k2", I), ("d0", F), ("d1", F), ("d2", F), ("g0", I), ("g1", I), ("g2", I), ("newk", I), ("newd", F)],
                    [KP + (" and k0 < k1 < k2" if (ms == 3 and not thorough) else ""),
                     "0 <= d0 < 1e9 and 0 <= d1 < 1e9 and 0 <= d2 < 1e9 and 0 <= newd < 1e9", "0 <= g0 <= 1 and 0 <= g1 <= 2 and 0 <= g2 <= 1", "0 <= newk <= 3"],
                    f"H.hybrid({ms}, {aw10}, {dw10}, k0, k1, k2, d0, d1, d2, g0, g1, g2, newk, newd)",
                    timeout=240 if not thorough else 900,
                    flags=("realfloat",),
                    bounds=f"HybridCache(max_size={ms}, access_weight={aw10 / 10}, duration_weight={dw10 / 10}, shared=False) full; durations symbolic "
                    "reals >= 0 (incl. all zero), access counts 1..3; a put must evict an entry of minimal score and never raise",
                )  # fmt: skip
            )
    obs.append(
        Ob(
            "hybrid_after_clear_m2",
            [("k0", I), ("k1", I), ("k2", I), ("d0", F), ("d1", F), ("d2", F), ("g0", I), ("g1", I), ("g2", I), ("newk", I), ("newd", F), ("dpre", F)],
            [KP + " and k0 < k1 < k2", "0 <= d0 < 1e9 and 0 <= d1 < 1e9 and 0 <= d2 < 1e9 and 0 <= newd < 1e9 and 0 <= dpre < 1e9",
             "0 <= g0 <= 1 and 0 <= g1 <= 2 and 0 <= g2 <= 1", "0 <= newk <= 3"],
            "H.hybrid(2, 5, 5, k0, k1, k2, d0, d1, d2, g0, g1, g2, newk, newd, True, dpre)",
            timeout=240,
            flags=("realfloat",),
            bounds="HybridCache(max_size=2): put + get + clear() with a symbolic duration, then the fill / evict step: the cleared entries must not influence the score",
        )  # fmt: skip
    )
    for ms in (1, 2):
        obs.append(
            Ob(
                f"memo_hybrid_m{ms}",
                [("x0", I), ("x1", I), ("x2", I)] + [(f"t{i}", F) for i in range(6)],
                ["0 <= x0 <= 2 and 0 <= x1 <= 2 and 0 <= x2 <= 2", "0 <= t0 <= t1 <= t2 <= t3 <= t4 <= t5 < 1e9"],
                f"H.memo_hybrid({ms}, x0, x1, x2, t0, t1, t2, t3, t4, t5)",
                timeout=120,
                flags=("realfloat",),
                bounds="memoize(HybridCache) for 3 calls under an arbitrary non-decreasing clock (equal instants allowed)",
            )
        )
    for ms in (1, 2):
        for with_lru in (False, True):
            obs.append(
                Ob(
                    f"disk_m{ms}_{'lru' if with_lru else 'nolru'}",
                    [(x, I) for x in ("k0", "k1", "w0", "w1", "op", "a", "v", "q")],
                    ["0 <= k0 <= 2 and 0 <= k1 <= 2 and 0 <= a <= 2 and 0 <= q <= 2", "op in (0, 1, 4)"],
                    f"H.disk({ms}, {with_lru}, k0, k1, w0, w1, op, a, v, q)",
                    timeout=150,
                    flags=("tokpickle",),
                    bounds=f"DiskCache(max_size={ms}, with_lru_cache={with_lru}) on tmpfs: two puts, one symbolic op, re-open on the same directory",
                )
            )
    return obs

"""C15 - cache keys identify argument values: equal key iff equal value (of the same type)."""
from __future__ import annotations

import collections

from engine.ob import Ob
from harness import lib as L
from harness.lib import fail

import pipefunc.cache as C

WHY = L.WHY
OUTSIDE = (
    "NumPy arrays beyond 2x2 int arrays, pandas objects, arbitrary picklables (cloudpickle + md5 has no symbolic encoding), equality of keys across "
    "interpreters with different hash seeds, values that embed the conversion marker itself"
)
ASSUMPTIONS = [
    "S8: hash() of a symbolic leaf inside to_hashable is answered without realisation (to_hashable only probes hashability)",
    "dict keys / set members / bytearray items are small ints (0..2) and are realised; all other leaves are unbounded symbolic ints",
]


def _od(items):
    return collections.OrderedDict(items)


# name -> (number of leaves, number of small-range leaves (first ones), builder)
STRUCT = {
    "L0": (0, 0, lambda: []),
    "L1": (1, 0, lambda a: [a]),
    "L2": (2, 0, lambda a, b: [a, b]),
    "L3": (3, 0, lambda a, b, c: [a, b, c]),
    "T2": (2, 0, lambda a, b: (a, b)),
    "TL": (2, 0, lambda a, b: (a, [b])),
    "LL": (2, 0, lambda a, b: [[a], [b]]),
    "LT": (2, 0, lambda a, b: [(a, b)]),
    "L_L2": (2, 0, lambda a, b: [[a, b]]),
    "D1": (2, 1, lambda k, a: {k: a}),
    "D2": (4, 2, lambda k1, k2, a, b: {k1: a, k2: b}),
    "DL": (2, 1, lambda k, a: {k: [a]}),
    "OD2": (4, 2, lambda k1, k2, a, b: _od([(k1, a), (k2, b)])),
    "DD1": (2, 1, lambda k, a: collections.defaultdict(int, {k: a})),
    "DDL": (2, 1, lambda k, a: collections.defaultdict(list, {k: a})),
    "CN1": (2, 1, lambda k, a: collections.Counter({k: a})),
    "S2": (2, 2, lambda a, b: {a, b}),
    "LS": (2, 2, lambda a, b: [{a}, b]),
    "DQ2": (2, 0, lambda a, b: collections.deque([a, b])),
    "DQ2m": (2, 0, lambda a, b: collections.deque([a, b], maxlen=3)),
    "BA2": (2, 2, lambda a, b: bytearray([a, b])),
    "LBA": (2, 2, lambda a, b: [bytearray([a]), b]),
}
ORDER = list(STRUCT)
NEG_OK = {"S2", "LS"}  # set members also range over negative ints (hash(-1) == hash(-2))


def _build(name, leaves):
    n, nsmall, f = STRUCT[name]
    vals = list(leaves[:n])
    for i in range(nsmall):
        vals[i] = L.concretize(vals[i], -2, 2) if name in NEG_OK else L.concretize(vals[i], 0, 2)
    return f(*vals)


def _same_type_tree(x, y):
    """v1 and v2 have the same container types at every level (the statement: 'equal values of the same type')"""
    if type(x) is not type(y):
        # int-like leaves (symbolic or concrete) count as the same type
        return _is_leaf(x) and _is_leaf(y)
    if isinstance(x, (list, tuple, collections.deque)):
        return len(x) == len(y) and all(_same_type_tree(a, b) for a, b in zip(x, y))
    if isinstance(x, dict):
        if isinstance(x, collections.defaultdict) and x.default_factory is not y.default_factory:
            return False
        return set(x.keys()) == set(y.keys()) and all(_same_type_tree(x[k], y[k]) for k in x)
    return True


def _is_leaf(x):
    return not isinstance(x, (list, tuple, dict, set, frozenset, collections.deque, bytearray))


def _value_eq(x, y):
    if isinstance(x, collections.deque) and x.maxlen != y.maxlen:
        return False  # maxlen is part of the value (documented in the key)
    return x == y


def pair(s1, s2, a0, a1, a2, a3, b0, b1, b2, b3):
    L.reset()
    v1 = _build(s1, (a0, a1, a2, a3))
    v2 = _build(s2, (b0, b1, b2, b3))
    k1 = C.to_hashable(v1, fallback_to_pickle=False)
    k2 = C.to_hashable(v2, fallback_to_pickle=False)
    try:
        hash(k1)
        hash(k2)
    except TypeError:
        return fail("key is not hashable")
    same = _same_type_tree(v1, v2) and _value_eq(v1, v2)
    keq = k1 == k2
    if same and not keq:
        return fail("equal values of the same type got different keys")
    if keq and not same:
        return fail("values that differ got equal keys")
    return True


def stable(s1, a0, a1, a2, a3):
    """the key of a value equals the key of an equal, separately built value (and converting twice is stable)"""
    L.reset()
    v1 = _build(s1, (a0, a1, a2, a3))
    v2 = _build(s1, (a0, a1, a2, a3))
    k1 = C.to_hashable(v1, fallback_to_pickle=False)
    k2 = C.to_hashable(v2, fallback_to_pickle=False)
    if not (k1 == k2):
        return fail("same value, different keys")
    if not (C.to_hashable(k1) == k1):
        return fail("key of a key changes")
    return True


def dict_order(k1, k2, a, b, kind):
    """insertion order is insignificant for dict / defaultdict / Counter / set and significant for OrderedDict"""
    L.reset()
    k1, k2 = L.concretize(k1, 0, 2), L.concretize(k2, 0, 2)
    if k1 == k2:
        return True
    if kind == 0:
        x, y = {k1: a, k2: b}, {k2: b, k1: a}
    elif kind == 1:
        x, y = collections.defaultdict(int, {k1: a, k2: b}), collections.defaultdict(int, {k2: b, k1: a})
    elif kind == 2:
        x, y = collections.Counter({k1: a, k2: b}), collections.Counter({k2: b, k1: a})
    elif kind == 3:
        x, y = _od([(k1, a), (k2, b)]), _od([(k2, b), (k1, a)])
    else:
        x, y = {k1, k2}, {k2, k1}
    kx, ky = C.to_hashable(x, False), C.to_hashable(y, False)
    if kind == 3:
        if kx == ky:
            return fail("OrderedDict order ignored")
        return True
    if not (kx == ky):
        return fail("insertion order changed the key")
    return True


def np_pair(a0, a1, a2, a3, b0, b1, b2, b3, va, vb, dt):
    """small int NumPy arrays: equal key iff same shape, dtype and content - whatever the memory layout"""
    L.reset()
    import numpy as np

    vals = [L.concretize(x, 0, 1) for x in (a0, a1, a2, a3)]
    # the second array holds the same elements, or the transposed ones (b0 selects)
    vals = vals + (vals if not b0 else [vals[0], vals[2], vals[1], vals[3]])
    va, vb, dt = L.concretize(va, 0, 3), L.concretize(vb, 0, 3), L.concretize(dt, 0, 1)

    def mk(v, variant, dtype):
        a = np.array([[v[0], v[1]], [v[2], v[3]]], dtype=dtype)
        if variant == 1:
            return a.T  # a view with other strides
        if variant == 2:
            return np.asfortranarray(a)
        if variant == 3:
            return a.reshape(4)
        return a

    x = mk(vals[:4], va, np.int64)
    y = mk(vals[4:], vb, np.int64 if dt == 0 else np.int32)
    kx, ky = C.to_hashable(x, False), C.to_hashable(y, False)
    hash(kx)
    hash(ky)
    same = x.shape == y.shape and x.dtype == y.dtype and bool((x == y).all())
    if same != (kx == ky):
        return fail("NumPy arrays: equal key without equal value (or the converse)")
    return True


def mixed_keys(a, b):
    """a dict whose keys are of different types still gets a key"""
    L.reset()
    k = C.to_hashable({"": a, 0: b}, False)
    hash(k)
    return True


def memo(s1, s2, a0, a1, a2, a3, b0, b1, b2, b3, cache_kind):
    """memoize returns a stored result only for a call whose arguments equal those of the producing call"""
    L.reset()
    v1 = _build(s1, (a0, a1, a2, a3))
    v2 = _build(s2, (b0, b1, b2, b3))
    calls = []
    cache = C.SimpleCache() if cache_kind == 0 else C.LRUCache(max_size=4, shared=False)

    @C.memoize(cache=cache, fallback_to_pickle=False)
    def f(x, *, y=0):
        calls.append(1)
        return len(calls)

    r1 = f(v1, y=1)
    r2 = f(v2, y=1)
    same = _same_type_tree(v1, v2) and _value_eq(v1, v2)
    if same:
        if not (r2 == r1 and len(calls) == 1):
            return fail("equal arguments were recomputed")
    elif not (r2 == 2 and len(calls) == 2):
        return fail("stored result returned for different arguments")
    r3 = f(v1, y=2)
    if len(calls) != (2 if same else 3) or r3 != len(calls):
        return fail("different keyword value hit the cache")
    return True


CALL_SHAPES = [
    lambda x, y: ((x,), {}),
    lambda x, y: ((x, y), {}),
    lambda x, y: ((x,), {"a": y}),
    lambda x, y: ((), {"a": x}),
    lambda x, y: (((x,), {"a": y}), {}),  # two positionals that look like an (args, kwargs) pair
    lambda x, y: (((x, y),), {}),
    lambda x, y: ((((x,), {"a": y}),), {}),  # one positional that is an (args, kwargs) pair
    lambda x, y: ((), {}),
    lambda x, y: (((), {}), {}),
    lambda x, y: ((), {"a": x, "b": y}),
    lambda x, y: (({"a": x, "b": y},), {}),
    lambda x, y: ((x,), {"b": y}),
]


def memo_calls(c1, c2, x1, y1, x2, y2):
    """two calls of one memoized f(*args, **kwargs) whose (args, kwargs) come from the listed call shapes:
    the second call gets the stored result only when it passes the same arguments in the same way"""
    L.reset()
    c1 = L.concretize(c1, 0, len(CALL_SHAPES) - 1)
    c2 = L.concretize(c2, 0, len(CALL_SHAPES) - 1)
    x1, y1, x2, y2 = (L.concretize(v, 0, 1) for v in (x1, y1, x2, y2))
    calls = []

    @C.memoize(cache=C.SimpleCache(), fallback_to_pickle=False)
    def f(*args, **kwargs):
        calls.append(1)
        return len(calls)

    a1, k1 = CALL_SHAPES[c1](x1, y1)
    a2, k2 = CALL_SHAPES[c2](x2, y2)
    r1 = f(*a1, **k1)
    r2 = f(*a2, **k2)
    same = c1 == c2 and _value_eq((a1, k1), (a2, k2))
    if same:
        if not (r2 == r1 and len(calls) == 1):
            return fail("equal call was recomputed")
    elif not (r2 == 2 and len(calls) == 2):
        return fail("stored result returned for a call with different arguments")
    return True


CANARIES = {}


def _canary_unordered_od():
    orig = C.to_hashable

    def th(obj, fallback_to_pickle=True):
        if isinstance(obj, collections.OrderedDict):
            return (C._HASH_MARKER, type(obj), C._hashable_mapping(obj, fallback_to_pickle, sort=True))
        return orig(obj, fallback_to_pickle)

    C.to_hashable = th


CANARIES["ordereddict_sorted"] = _canary_unordered_od


def obligations(tier):
    I = "int"
    thorough = tier == "thorough"
    obs = []
    A = [(f"a{i}", I) for i in range(4)]
    Bv = [(f"b{i}", I) for i in range(4)]
    SM = "0 <= {0} <= 2"
    quick_set = ["L2", "L3", "T2", "TL", "LL", "LT", "D1", "D2", "OD2", "DD1", "CN1", "S2", "DQ2", "DQ2m", "BA2", "L0", "L1"]
    names = ORDER if thorough else quick_set

    def small_pre(sname, prefix):
        n, nsmall, _ = STRUCT[sname]
        pre = [(SM if sname not in NEG_OK else "-2 <= {0} <= 2").format(f"{prefix}{i}") for i in range(nsmall)]
        pre += [f"{prefix}{i} == 0" for i in range(n, 4)]
        return pre

    for i, s1 in enumerate(names):
        for s2 in names[i:]:
            related = s1 == s2 or (s1[0] == s2[0]) or {s1, s2} <= {"L2", "T2", "DQ2", "DQ2m", "BA2", "S2", "LT", "L_L2"} or {s1, s2} <= {"D1", "DD1", "DDL", "CN1", "DL"} or {s1, s2} <= {"D2", "OD2"}
            if not thorough and not related:
                continue
            obs.append(
                Ob(
                    f"pair_{s1}_{s2}",
                    A + Bv,
                    small_pre(s1, "a") + small_pre(s2, "b"),
                    f"H.pair({s1!r}, {s2!r}, a0, a1, a2, a3, b0, b1, b2, b3)",
                    timeout=120,
                    flags=("hashstub",),
                    bounds=f"structures {s1} x {s2}; leaves unbounded symbolic ints (dict keys / set members / bytes in 0..2)",
                    canaries=("ordereddict_sorted",) if (s1, s2) == ("OD2", "OD2") else (),
                )
            )
    for s1 in names:
        obs.append(
            Ob(f"stable_{s1}", A, small_pre(s1, "a"), f"H.stable({s1!r}, a0, a1, a2, a3)", timeout=60, flags=("hashstub",), bounds=f"structure {s1}")
        )
    obs.append(
        Ob(
            "dict_order",
            [("k1", I), ("k2", I), ("a", I), ("b", I), ("kind", I)],
            ["0 <= k1 <= 2 and 0 <= k2 <= 2", "0 <= kind <= 4"],
            "H.dict_order(k1, k2, a, b, kind)",
            flags=("hashstub",),
            bounds="two keys in 0..2 in both insertion orders; dict, defaultdict, Counter, OrderedDict, set",
        )
    )
    obs.append(
        Ob(
            "np_pair",
            [(f"a{i}", I) for i in range(4)] + [(f"b{i}", I) for i in range(4)] + [("va", I), ("vb", I), ("dt", I)],
            [" and ".join(f"0 <= a{i} <= 1" for i in range(4)) + " and 0 <= b0 <= 1 and b1 == 0 and b2 == 0 and b3 == 0", "0 <= va <= 3 and 0 <= vb <= 3 and 0 <= dt <= 1"],
            "H.np_pair(a0, a1, a2, a3, b0, b1, b2, b3, va, vb, dt)",
            timeout=400,
            flags=("hashstub",),
            bounds="2x2 int arrays with elements 0..1 (realised), as C-ordered array, transpose view, Fortran copy or flattened; int64 vs int32",
        )
    )
    obs.append(Ob("mixed_keys", [("a", I), ("b", I)], [], "H.mixed_keys(a, b)", flags=("hashstub",), bounds="{'': a, 0: b} (region of known finding F14)"))
    memo_pairs = [("L2", "L2"), ("L2", "T2"), ("D1", "D1"), ("D1", "DD1"), ("LL", "LL"), ("S2", "S2")]
    if thorough:
        memo_pairs += [("D2", "D2"), ("D2", "OD2"), ("DQ2", "DQ2m"), ("OD2", "OD2"), ("TL", "TL"), ("BA2", "L2"), ("CN1", "D1")]
    for s1, s2 in memo_pairs:
        obs.append(
            Ob(
                f"memo_{s1}_{s2}",
                A + Bv + [("cache_kind", I)],
                small_pre(s1, "a") + small_pre(s2, "b") + ["0 <= cache_kind <= 1"]
                + [f"0 <= {p}{i} <= 1" for p, sn in (("a", s1), ("b", s2)) for i in range(STRUCT[sn][0])],
                f"H.memo({s1!r}, {s2!r}, a0, a1, a2, a3, b0, b1, b2, b3, cache_kind)",
                timeout=120,
                flags=("hashstub",),
                bounds=f"memoize(SimpleCache | LRUCache) called with {s1} then {s2} then the first again with another keyword value; leaves in 0..1 (the cache hashes them)",
            )
        )
    for c1 in range(len(CALL_SHAPES)):
        obs.append(
            Ob(
                f"memo_calls_{c1}",
                [("c2", I), ("x1", I), ("y1", I), ("x2", I), ("y2", I)],
                [f"0 <= c2 < {len(CALL_SHAPES)}", "0 <= x1 <= 1 and 0 <= y1 <= 1 and 0 <= x2 <= 1 and 0 <= y2 <= 1"],
                f"H.memo_calls({c1}, c2, x1, y1, x2, y2)",
                timeout=200,
                flags=("hashstub",),
                bounds=f"a memoized f(*args, **kwargs) called in shape {c1} and then in each of {len(CALL_SHAPES)} call shapes (positional / keyword / positionals "
                "that mimic an (args, kwargs) pair / empty), leaves 0..1: a stored result only for the same call",
            )
        )
    return obs

"""Shared helpers for the obligations (no pipefunc mechanism is imported here)."""
from __future__ import annotations

import itertools
import os
import shutil
import sys
import tempfile

sys.modules.setdefault("zarr", None)  # S1

try:  # available in every interpreter that runs harness code
    from crosshair.tracers import NoTracing
except Exception:  # pragma: no cover
    import contextlib

    NoTracing = contextlib.nullcontext  # type: ignore[misc,assignment]

SYMBOLIC = bool(os.environ.get("VERIF_SYMBOLIC"))
WHY: list = []


def fail(why) -> bool:
    """Return False from an obligation and remember why (used as replay signature)."""
    with NoTracing():
        WHY.append(why)
    return False


def reset():
    with NoTracing():
        WHY.clear()


_DIRS: list = []


def scratch_dir() -> str:
    """A fresh directory on tmpfs; removed by `cleanup_dirs()` (call in a finally)."""
    with NoTracing():
        base = os.environ.get("VERIF_SCRATCH")
        if not base or not os.path.isdir(base):
            base = "/dev/shm" if os.path.isdir("/dev/shm") else tempfile.gettempdir()
        d = tempfile.mkdtemp(prefix="p_", dir=base)
        _DIRS.append(d)
        return d


def cleanup_dirs():
    with NoTracing():
        while _DIRS:
            shutil.rmtree(_DIRS.pop(), ignore_errors=True)


# ---------- nested-list helpers (reference side never uses numpy) ----------
def shape_of(x):
    sh = []
    while isinstance(x, list):
        sh.append(len(x))
        x = x[0] if x else None
    return tuple(sh)


def get(x, idx):
    for i in idx:
        x = x[i]
    return x


def build(shape, f):
    def rec(prefix, rest):
        if not rest:
            return f(tuple(prefix))
        return [rec(prefix + [i], rest[1:]) for i in range(rest[0])]

    return rec([], list(shape))


def indices(shape):
    return itertools.product(*[range(n) for n in shape])


def prod(xs):
    r = 1
    for x in xs:
        r = r * x
    return r


def concretize(x, lo, hi):
    """Case-split a small-range symbolic int into a concrete one by an explicit chain of
    equality tests (plain binary decisions; every value in lo..hi is its own path)."""
    for c in range(lo, hi + 1):
        if x == c:
            return c
    return x


def concretize_in(x, values):
    """case split over an explicit list of values"""
    for c in values:
        if x == c:
            return c
    return x

"""C01 - map results equal the MapSpec denotation for every pipeline and input."""
from __future__ import annotations

import numpy as np

from engine.ob import Ob
from harness import lib as L
from harness import tmpl
from harness.lib import NoTracing, fail
from harness.tmpl import MAP_ARGS, MAP_PARAMS, T

import pipefunc.map._run as R
from pipefunc.map import load_outputs
from pipefunc.map._storage_array import _base as B
from pipefunc.map._storage_array._dict import DictArray

WHY = L.WHY
OUTSIDE = "ranks > 3 (T15: 3 + internal), sizes > 3, zarr and the real shared_memory_dict, parallel=True (C03), more than 5 functions"
ASSUMPTIONS = [
    "user functions are distinguishing integer linear forms (DESIGN 4.3): equality with the denotation for all integers holds iff every "
    "input element reached the right argument position of the right call",
    "axis sizes are realised (case split 1..2 quick / 1..3 thorough); input values are unbounded symbolic ints",
]


class DictSub(DictArray):
    """DictArray that is dumped by the worker: the code path of shared_memory_dict without a manager process."""

    storage_id = "dict_sub"
    requires_serialization = True  # like shared_memory_dict (needs a run folder, is persisted at the end)

    @property
    def dump_in_subprocess(self) -> bool:
        return True


B.register_storage(DictSub)


def run_map(tid, storage, n0, n1, n2, *vals, with_folder=False, as_array=False):
    """Pipeline.map(..., parallel=False) on template `tid`: every element of every output equals the
    denotation; each function is called once per output index; stored data reload equal."""
    L.reset()
    t = T[tid]
    n, v = tmpl.sizes_and_values(n0, n1, n2, vals)
    try:
        with NoTracing():
            from engine import shims

            shims.TOK.clear()
            log = tmpl.Log()
            p = tmpl.make_pipeline(t.funcs, log)
            folder = L.scratch_dir() if (with_folder or storage in ("file_array", "dict_sub")) else None
        inputs = t.inputs(n, v)
        if as_array:
            inputs = {k: (np.array(x, dtype=object) if isinstance(x, list) else x) for k, x in inputs.items()}
        ref, ncalls = tmpl.reference(t.funcs, inputs)
        res = p.map(dict(inputs), run_folder=folder, storage=storage, parallel=False)
        if not tmpl.compare_results(t.funcs, res, ref):
            return False
        if not tmpl.compare_calls(t.funcs, log, ncalls):
            return False
        if folder is not None:
            for fs in t.funcs:
                for o in fs.outputs:
                    if not tmpl.same_value(load_outputs(o, run_folder=folder), ref[o]):
                        return fail(f"load_outputs({o}) differs")
        return True
    finally:
        L.cleanup_dirs()


def construct(tid):
    """the template's pipeline can be constructed (a valid request is never refused)"""
    L.reset()
    log = tmpl.Log()
    tmpl.make_pipeline(T[tid].funcs, log)
    return True


CANARIES = {}


def _canary_pair_swap():
    orig = R._output_from_mapspec_task

    def mut(func, store, args, outputs_list):
        if len(args.missing) == 3:
            outputs_list = list(outputs_list)
            outputs_list[0], outputs_list[2] = outputs_list[2], outputs_list[0]
        return orig(func, store, args, outputs_list)

    R._output_from_mapspec_task = mut


def _canary_default_wins():
    def fk(func, run_info, store):
        kwargs = {}
        for p in func.parameters:
            if p in func._bound:
                kwargs[p] = func._bound[p]
            elif p in run_info.defaults and p not in run_info.all_output_names:
                kwargs[p] = run_info.defaults[p]
            elif p in run_info.inputs:
                kwargs[p] = run_info.inputs[p]
            else:
                kwargs[p] = R._load_from_store(p, store).value
        return kwargs

    R._func_kwargs = fk


CANARIES["swap_results_when_three_missing"] = _canary_pair_swap
CANARIES["default_beats_input"] = _canary_default_wins

QUICK_T = ["TN", "T1", "T2", "T3", "T4", "T5", "T6", "T7", "T7p", "T8", "T9", "T10", "T11", "T12", "T13", "T14", "T16", "T18", "T19", "T20", "TN2"]


def obligations(tier):
    thorough = tier == "thorough"
    obs = []
    hi = 3 if thorough else 2
    tids = QUICK_T + (["T15", "T17"] if thorough else [])
    for tid in tids:
        t = T[tid]
        storages = ["dict", "file_array"] + (["dict_sub"] if thorough else [])
        for st in storages:
            for as_array in (False, True) if thorough else (False,):
                canaries = ()
                if (tid, st, as_array) == ("T3", "dict", False) and thorough:
                    canaries = ("swap_results_when_three_missing",)
                if (tid, st, as_array) == ("T16", "dict", False):
                    canaries = ("default_beats_input",)
                obs.append(
                    Ob(
                        f"map_{tid}_{st}" + ("_nd" if as_array else ""),
                        MAP_PARAMS,
                        tmpl.size_pre(t, 3 if (thorough or (t.axes <= 2 and st == "dict")) else 2),
                        f"H.run_map({tid!r}, {st!r}, {MAP_ARGS}, as_array={as_array})",
                        timeout=400 if thorough else 200,
                        flags=("tokpickle",),
                        bounds=f"{tid}: {t.doc}; storage {st}; axis sizes 1..{3 if (thorough or (t.axes <= 2 and st == 'dict')) else 2}; values unbounded; inputs as {'object ndarrays' if as_array else 'lists'}",
                        canaries=canaries,
                    )
                )
        if thorough:
            obs.append(
                Ob(
                    f"map_{tid}_dict_folder",
                    MAP_PARAMS,
                    tmpl.size_pre(t, hi),
                    f"H.run_map({tid!r}, 'dict', {MAP_ARGS}, with_folder=True)",
                    timeout=400,
                    flags=("tokpickle",),
                    bounds=f"{tid}: dict storage persisted into a run folder and reloaded",
                )
            )
    obs.append(Ob("construct_T8p", [("x", "int")], [], "H.construct('T8p')", bounds="T8p: " + T["T8p"].doc))
    obs.append(
        Ob(
            "map_T8p_dict",
            MAP_PARAMS,
            tmpl.size_pre(T["T8p"], hi),
            f"H.run_map('T8p', 'dict', {MAP_ARGS})",
            timeout=120,
            flags=("tokpickle",),
            bounds="T8p: " + T["T8p"].doc,
        )
    )
    return obs

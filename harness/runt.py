"""RUN-T templates: declared function tables (no MapSpec) -> real pipelines with distinguishing
linear forms + an independent recursive evaluator and argument-combination closure."""
from __future__ import annotations

import itertools

from harness import lib as L
from harness.lib import NoTracing

PRIMES = [3, 5, 7, 11, 13, 17, 19, 23, 29, 31, 37, 41, 43, 47, 53, 59]


class F:
    def __init__(self, name, params, outputs, defaults=None, bound=None, renamed=(), out_orig=None):
        self.name, self.params, self.outputs = name, list(params), list(outputs)
        self.defaults, self.bound = dict(defaults or {}), dict(bound or {})
        self.renamed = set(renamed)  # pipeline-level names that differ from the Python parameter names
        # out_orig: the output names given to PipeFunc *before* renames (same length as outputs); the
        # pipeline-level names are `outputs`, obtained through PipeFunc(renames=...)
        self.out_orig = list(out_orig) if out_orig else None


def form(fi, oi, args):
    tot = 1000 * (fi + 1) + 100 * oi
    for pi, a in enumerate(args):
        tot = tot + PRIMES[(fi * 4 + pi + 2 * oi) % len(PRIMES)] * a
    return tot


def make_functions(template, log, cache=None, fail_at=None, coeff_shift=0):
    from pipefunc import PipeFunc

    funcs = []
    for fi, fs in enumerate(template):

        def body(*args, _fi=fi, _fs=fs):
            with NoTracing():
                log.append(_fs.name)
                nth = len(log)
            if fail_at is not None:
                fail_at(_fs.name, nth, args)
            outs = [form(_fi + coeff_shift, oi, args) for oi in range(len(_fs.outputs))]
            return tuple(outs) if len(outs) > 1 else outs[0]

        py = {p: ("o_" + p if p in fs.renamed else p) for p in fs.params}
        ordered = [p for p in fs.params if p not in fs.defaults] + [p for p in fs.params if p in fs.defaults]
        sig = ", ".join(f"{py[p]}={fs.defaults[p]!r}" if p in fs.defaults else py[p] for p in ordered)
        ns = {"_body": body}
        exec(f"def {fs.name}({sig}):\n    return _body({', '.join(py[p] for p in fs.params)})\n", ns)  # noqa: S102
        on = tuple(fs.outputs) if len(fs.outputs) > 1 else fs.outputs[0]
        kw = {}
        if fs.renamed:
            kw["renames"] = {py[p]: p for p in fs.renamed}
        if fs.out_orig:
            on = tuple(fs.out_orig) if len(fs.out_orig) > 1 else fs.out_orig[0]
            kw.setdefault("renames", {}).update({o: n for o, n in zip(fs.out_orig, fs.outputs) if o != n})
        if cache is not None:
            kw["cache"] = bool(cache(fs.name)) if callable(cache) else bool(cache)
        funcs.append(PipeFunc(ns[fs.name], on, bound=dict(fs.bound) or None, **kw))
    return funcs


def make(template, log, order=None, **pipeline_kw):
    from pipefunc import Pipeline

    fk = {k: pipeline_kw.pop(k) for k in ("cache", "fail_at", "coeff_shift") if k in pipeline_kw}
    funcs = make_functions(template, log, **fk)
    if order is not None:
        funcs = [funcs[i] for i in order]
    return Pipeline(funcs, **pipeline_kw)


def producers(template):
    return {o: (fi, fs) for fi, fs in enumerate(template) for o in fs.outputs}


def ref_eval(template, out, kw, coeff_shift=0):
    """value of `out`, the functions needed (dependencies first) and every value of the evaluation,
    by the rule bound > supplied keyword > upstream output > default"""
    prod = producers(template)
    memo = dict(kw)
    used = set()
    called = []

    def val(name):
        if name in memo:
            if name in kw:
                used.add(name)
            return memo[name]
        fi, fs = prod[name]
        args = []
        for p in fs.params:
            if p in fs.bound:
                args.append(fs.bound[p])
            elif p in kw:
                used.add(p)
                args.append(kw[p])
            elif p in prod:
                args.append(val(p))
            elif p in fs.defaults:
                args.append(fs.defaults[p])
            else:
                raise KeyError(p)
        called.append(fs.name)
        for oi, o in enumerate(fs.outputs):
            if o not in kw:
                memo[o] = form(fi + coeff_shift, oi, args)
        return memo[name]

    outs = out if isinstance(out, tuple) else (out,)
    vals = [val(o) for o in outs]
    return (tuple(vals) if isinstance(out, tuple) else vals[0]), called, used, memo


def all_names(template):
    names = []
    for fs in template:
        for p in fs.params:
            if p not in names:
                names.append(p)
        for o in fs.outputs:
            if o not in names:
                names.append(o)
    return names


_VC_CACHE: dict = {}


def valid_cuts(template, out):
    key = (id(template), out)
    if key not in _VC_CACHE:
        with NoTracing():
            _VC_CACHE[key] = _valid_cuts(template, out)
    return _VC_CACHE[key]


def _valid_cuts(template, out):
    """semantic definition: the sets S of names such that evaluating `out` with exactly S supplied
    succeeds and uses every member of S (computed with the reference evaluator only)"""
    outs = out if isinstance(out, tuple) else (out,)
    names = [n for n in all_names(template) if n not in outs]
    res = set()
    for r in range(len(names) + 1):
        for S in itertools.combinations(names, r):
            kw = {n: 1 for n in S}
            try:
                _, _, used, _ = ref_eval(template, out, kw)
            except KeyError:
                continue
            if used == set(S):
                res.add(tuple(sorted(S)))
    return res


def splits_tuple_node(template, S):
    for fs in template:
        if len(fs.outputs) > 1:
            k = sum(1 for o in fs.outputs if o in S)
            if 0 < k < len(fs.outputs):
                return True
    return False


def ref_arg_combinations(template, out):
    """the valid cuts that do not split a multi-output node (the API lists a function node with all its outputs)"""
    return {S for S in valid_cuts(template, out) if not splits_tuple_node(template, S)}


def needed_ok(template, called, log, supplied=()):
    """the log contains exactly the needed functions, once each, dependencies first"""
    if sorted(log) != sorted(called):
        return False
    prod = producers(template)
    pos = {n: i for i, n in enumerate(log)}
    byname = {fs.name: fs for fs in template}
    for n in log:
        for p in byname[n].params:
            if p in prod and p not in supplied and p not in byname[n].bound and prod[p][1].name in pos and pos[prod[p][1].name] > pos[n]:
                return False
    return True


R = {
    "R1": [F("f", ["a", "b"], ["c"]), F("g", ["c", "x"], ["d"]), F("h", ["d", "y"], ["e"])],
    "R2": [F("f", ["a"], ["b"]), F("g", ["b", "x"], ["c"]), F("h", ["b", "y"], ["d"]), F("k", ["c", "d"], ["e"])],
    "R3": [
        F("f", ["a", "b"], ["c"], defaults={"b": 7}),
        F("g", ["c", "x"], ["d", "e"]),
        F("k", ["d", "y"], ["m"], bound={"y": 9}),
        F("h", ["m", "e", "a"], ["z"]),
    ],
    "R4": [F("n", [], ["k"]), F("f", ["k", "a"], ["y"])],
    "R5": [F("f", ["a", "s"], ["u"], defaults={"s": 3}), F("g", ["b", "s"], ["v"], defaults={"s": 3}), F("h", ["u", "v", "s"], ["w"], defaults={"s": 3})],
    "R6": [F("f", ["a"], ["b"]), F("g", ["c"], ["d"])],
    "R7": [F("f", ["a", "b"], ["p", "q"]), F("g", ["p"], ["r"]), F("h", ["q", "r"], ["s"])],
    "R8": [F("f", ["a2", "b"], ["c"], renamed={"a2"}), F("g", ["c", "x2"], ["d"], renamed={"x2"}, defaults={"x2": 4}), F("h", ["d", "a2"], ["e"], renamed={"d"})],
    "R10": [F("f", ["a", "b"], ["p", "q"], out_orig=["o_p", "o_q"]), F("g", ["p", "a"], ["r"]), F("h", ["q", "r"], ["s"])],
    "R11": [F("f", ["a", "b"], ["p", "q"], out_orig=["q", "p"]), F("g", ["p"], ["r"]), F("h", ["q", "r", "p"], ["s"])],
    "R12": [F("f", ["a"], ["b"]), F("g", ["b"], ["c"]), F("h", ["c", "x"], ["d"])],
    "R13": [F("f", ["a", "b"], ["c"]), F("g", ["a", "b", "c"], ["d"]), F("h", ["c", "d", "x"], ["e"])],
    "R14": [F("f", ["a"], ["b"]), F("g", ["b", "a"], ["c"]), F("h", ["c", "b"], ["d"]), F("k", ["d", "x"], ["e"])],
    "R15": [F("f", ["a"], ["b"]), F("g", ["b"], ["c"]), F("h", ["c", "a"], ["d"])],
    "R16": [F("f", ["x"], ["a"]), F("g", ["a", "y"], ["b"], bound={"a": 1}), F("h", ["b", "a"], ["c"])],
    "R17": [F("n", [], ["k"]), F("f", ["k", "a"], ["y"]), F("g", ["y", "b"], ["z"])],
    "R18": [F("fm", ["x"], ["m"]), F("fb", ["m"], ["b"]), F("fk", ["u", "m"], ["k"], defaults={"m": 0}), F("fa", ["k", "b"], ["a"])],
    "R19": [F("g", ["a"], ["y"]), F("f", ["a", "b"], ["z"], bound={"a": 100}), F("h", ["y", "z"], ["w"])],
    "R9": [F("f", ["a"], ["b"], bound={"a": 5}), F("g", ["b", "c"], ["d"], defaults={"c": 2}, bound={"c": 8}), F("h", ["d", "a"], ["e"])],
}


def orders(n):
    return list(itertools.permutations(range(n)))


def warm(p, out=None):
    """compute the pipeline's cached structural properties natively (they depend on nothing symbolic;
    running networkx under the tracer is only slower, not different)"""
    with NoTracing():
        p.graph  # noqa: B018
        p.output_to_func  # noqa: B018
        p.node_mapping  # noqa: B018
        p.defaults  # noqa: B018
        p.mapspec_names  # noqa: B018
        p.topological_generations  # noqa: B018
        p.all_output_names  # noqa: B018
        for o in ([out] if out is not None else list(p.output_to_func)):
            try:
                p.root_args(o)
                p.arg_combinations(o)
                p.func_dependencies(o)
            except Exception:  # noqa: BLE001, S110
                pass

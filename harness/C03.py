"""C03 - map results and call counts are independent of executor, storage and schedule.

Schedules are symbolic: a controllable concurrent.futures.Executor, passed through the public
`executor=` argument, runs the pending tasks in an order chosen by symbolic integers whenever a
Future's result is awaited.  Futures are real concurrent.futures.Future objects.
"""
from __future__ import annotations

from concurrent.futures import Executor, Future

from engine.ob import Ob
from harness import C01 as _C01  # registers dict_sub  # noqa: F401
from harness import lib as L
from harness import tmpl
from harness.lib import NoTracing, fail
from harness.tmpl import MAP_ARGS, MAP_PARAMS, T

from pipefunc.map import load_outputs

WHY = L.WHY
OUTSIDE = (
    "real thread / process pools and OS scheduling (map_async is driven through a single-threaded event loop), "
    "the real shared_memory_dict; tasks of one generation only interleave at task granularity (a task runs to completion)"
)
ASSUMPTIONS = [
    "an executor is anything that implements submit() -> Future; every completion order of the submitted tasks that the Future interface "
    "allows is covered up to the stated number of tasks per generation (choices beyond that run in submission order)",
]


class SymExecutor(Executor):
    """Runs submitted tasks lazily, in an order chosen by `choices` (symbolic ints)."""

    def __init__(self, choices, events):
        self.pending = []
        self.choices = list(choices)
        self.events = events
        self.name = "ex"

    def submit(self, fn, *args, **kwargs):
        fut = _Fut(self)
        self.pending.append((fut, fn, args, kwargs))
        return fut

    def run_some(self, until):
        while not until.done():
            n = len(self.pending)
            if n == 0:
                raise RuntimeError("deadlock: awaited future was never submitted to this executor")
            c = self.choices.pop(0) if self.choices else 0
            idx = L.concretize(c % n, 0, n - 1) if n > 1 else 0
            fut, fn, args, kwargs = self.pending.pop(idx)
            try:
                fut.set_result(fn(*args, **kwargs))
            except Exception as e:  # noqa: BLE001
                fut.set_exception(e)


class _Fut(Future):
    def __init__(self, ex):
        super().__init__()
        self._ex = ex

    def result(self, timeout=None):
        if not self.done():
            self._ex.run_some(self)
        return super().result(timeout)


class AsyncSymExecutor(Executor):
    """for map_async: a submitted task completes when the event loop runs `_step`; which pending task
    completes next is chosen by symbolic ints (single-threaded, deterministic given the choices)"""

    def __init__(self, choices):
        self.pending = []
        self.choices = list(choices)

    def submit(self, fn, *args, **kwargs):
        import asyncio

        fut = Future()
        self.pending.append((fut, fn, args, kwargs))
        asyncio.get_event_loop().call_soon(self._step)
        return fut

    def _step(self):
        if not self.pending:
            return
        n = len(self.pending)
        c = self.choices.pop(0) if self.choices else 0
        idx = L.concretize(c % n, 0, n - 1) if n > 1 else 0
        fut, fn, args, kwargs = self.pending.pop(idx)
        try:
            fut.set_result(fn(*args, **kwargs))
        except Exception as e:  # noqa: BLE001
            fut.set_exception(e)


def sched_async(tid, storage_kind, c0, c1, c2, c3, n0, n1, n2, *vals):
    """Pipeline.map_async with a symbolic completion order: same results, stored data and call counts"""
    import asyncio

    L.reset()
    t = T[tid]
    n, v = tmpl.sizes_and_values(n0, n1, n2, vals)
    try:
        with NoTracing():
            from engine import shims

            shims.TOK.clear()
            log = tmpl.Log()
            p = tmpl.make_pipeline(t.funcs, log)
            folder = L.scratch_dir() if storage_kind != "dict" else None
        storage = _storage(storage_kind, t)
        inputs = t.inputs(n, v)
        ref, ncalls = tmpl.reference(t.funcs, inputs)

        async def main():
            ex = AsyncSymExecutor([c0, c1, c2, c3])
            r = p.map_async(dict(inputs), run_folder=folder, storage=storage, executor=ex)
            return await r.task

        # an explicit loop: asyncio.run() installs signal handlers whose repr() formats (realises) task results
        loop = asyncio.new_event_loop()
        try:
            asyncio.set_event_loop(loop)
            res = loop.run_until_complete(main())
        finally:
            asyncio.set_event_loop(None)
            loop.close()
        if not tmpl.compare_results(t.funcs, res, ref):
            return False
        if not tmpl.compare_calls(t.funcs, log, ncalls):
            return False
        if folder is not None:
            for fs in t.funcs:
                for o in fs.outputs:
                    if not tmpl.same_value(load_outputs(o, run_folder=folder), ref[o]):
                        return fail(f"stored data of {o} differ")
        return True
    finally:
        L.cleanup_dirs()


def _storage(kind, t):
    mapped = [fs for fs in t.funcs if fs.mapspec and tmpl.parse_spec(fs.mapspec)[0]]
    if kind in ("dict", "file_array", "dict_sub"):
        return kind
    key = tuple(mapped[0].outputs) if len(mapped[0].outputs) > 1 else mapped[0].outputs[0]
    if kind == "mix_file_first":
        return {"": "dict", key: "file_array"}
    if kind == "mix_sub_first":
        return {"": "file_array", key: "dict_sub"}
    if kind == "mix_dict_first":
        return {key: "dict", "": "file_array"}
    raise AssertionError(kind)


def _generation(t):
    """generation index of every function (reference: longest producer chain)"""
    prod = {o: fs for fs in t.funcs for o in fs.outputs}
    gen = {}

    def g(fs):
        if fs.name not in gen:
            gen[fs.name] = 1 + max([g(prod[p]) for p in fs.params if p in prod and p not in fs.bound] or [0])
        return gen[fs.name]

    for fs in t.funcs:
        g(fs)
    return gen


def sched(tid, storage_kind, exec_kind, c0, c1, c2, c3, c4, c5, c6, c7, n0, n1, n2, *vals):  # noqa: C901
    L.reset()
    t = T[tid]
    n, v = tmpl.sizes_and_values(n0, n1, n2, vals)
    try:
        with NoTracing():
            from engine import shims

            shims.TOK.clear()
            log = tmpl.Log()
            p = tmpl.make_pipeline(t.funcs, log)
            # stored data are compared through load_outputs for every storage; "<kind>@nf": no run folder is given
            # (the library picks a temporary one when some backend needs it), results are compared only
            needs_folder = not storage_kind.endswith("@nf")
            storage_kind = storage_kind.split("@")[0]
            folder = L.scratch_dir() if needs_folder else None
        choices = [c0, c1, c2, c3, c4, c5, c6, c7]
        ex = SymExecutor(choices, log)
        if exec_kind == "single":
            executor = ex
        elif exec_kind == "default_dict":
            executor = {"": ex}
        else:  # a different executor per output + a default
            ex2 = SymExecutor(list(reversed(choices)), log)
            first = t.funcs[0]
            key = tuple(first.outputs) if len(first.outputs) > 1 else first.outputs[0]
            executor = {key: ex2, "": ex}
        storage = _storage(storage_kind, t)
        inputs = t.inputs(n, v)
        ref, ncalls = tmpl.reference(t.funcs, inputs)
        res = p.map(dict(inputs), run_folder=folder, storage=storage, parallel=True, executor=executor)
        if not tmpl.compare_results(t.funcs, res, ref):
            return False
        if not tmpl.compare_calls(t.funcs, log, ncalls):
            return False
        # no invocation of a later generation before the last invocation of an earlier one it depends on
        prod = {o: fs for fs in t.funcs for o in fs.outputs}
        byname = {fs.name: fs for fs in t.funcs}
        counts = {}
        for name in list(log):
            for prm in byname[name].params:
                if prm in prod and prm not in byname[name].bound:
                    pname = prod[prm].name
                    if counts.get(pname, 0) != ncalls[pname]:
                        return fail("a function was invoked before all values it consumes were complete")
            counts[name] = counts.get(name, 0) + 1
        if folder is not None:
            for fs in t.funcs:
                for o in fs.outputs:
                    if not tmpl.same_value(load_outputs(o, run_folder=folder), ref[o]):
                        return fail(f"stored data of {o} differ")
        return True
    finally:
        L.cleanup_dirs()


CANARIES = {}


def _canary_positional_pairing():
    """results are paired with indices by completion order instead of submission order"""
    import pipefunc.map._run as R

    orig = R._process_task

    def pt(func, kwargs_task, store):
        kwargs, task = kwargs_task
        if func.mapspec and func.mapspec.inputs:
            r, args = task
            # await in reverse: with an order-dependent pairing bug the results would be permuted
            done = [R._result(x) for x in reversed(r)]
            outputs_list = done  # BUG: not re-reversed
            output = R._output_from_mapspec_task(func, store, args, outputs_list)
            return R._to_result_dict(func, kwargs, output, store)
        return orig(func, kwargs_task, store)

    R._process_task = pt


CANARIES["results_paired_by_completion_order"] = _canary_positional_pairing


def obligations(tier):
    thorough = tier == "thorough"
    obs = []
    C = [(f"c{i}", "int") for i in range(8)]
    CARGS = ", ".join(n for n, _ in C)
    quick = [
        ("T1", "dict", "single", 3),
        ("T3", "dict", "default_dict", 2),
        ("T4", "dict", "single", 2),
        ("T4", "mix_file_first", "per_output", 2),
        ("T8", "file_array", "single", 2),
        ("T8", "dict", "per_output", 2),
        ("T12", "file_array", "default_dict", 2),
        ("T17", "dict", "single", 2),
        ("T17", "file_array", "per_output", 2),
        ("T5", "dict", "single", 2),
        ("T4", "dict_sub", "single", 2),
        ("T8", "mix_sub_first", "per_output", 2),
        ("T7p", "dict", "single", 2),
        ("TN2", "dict", "single", 2),
        ("TN2", "mix_file_first", "default_dict", 2),
        ("T7", "mix_file_first", "default_dict", 2),
        ("T4", "mix_file_first@nf", "single", 2),
        ("T8", "mix_dict_first@nf", "default_dict", 2),
        ("T1", "file_array@nf", "single", 2),
    ]
    full = [(tid, st, ek, 2) for tid in ("T1", "T3", "T4", "T5", "T7", "T7p", "T8", "T10", "T12", "T13", "T17") for st in ("dict", "file_array", "dict_sub", "mix_file_first", "mix_sub_first") for ek in ("single", "default_dict", "per_output")]
    full += [(tid, st + "@nf", "single", 2) for tid in ("T1", "T4", "T8") for st in ("file_array", "dict_sub", "mix_file_first", "mix_dict_first", "mix_sub_first")]
    for tid, st, ek, hi in full if thorough else quick:
        t = T[tid]
        big = tid in ("T4", "T8", "T10", "T12", "T17")  # several functions per generation / rank 3: the schedule space explodes
        nch = (4 if tid == "T1" else 3) if not thorough else (4 if big else 5)
        cpre = " and ".join(f"0 <= c{i} <= 3" for i in range(nch)) + " and " + " and ".join(f"c{i} == 0" for i in range(nch, 8))
        obs.append(
            Ob(
                f"sched_{tid}_{st.replace('@nf', '_nofolder')}_{ek}",
                C + MAP_PARAMS,
                [cpre] + (tmpl.size_pre(t, hi) if ((thorough and not big) or tid == "T1") else [" and ".join(f"n{a} == {2 if a < t.axes else 1}" for a in range(3))]),
                f"H.sched({tid!r}, {st!r}, {ek!r}, {CARGS}, {MAP_ARGS})",
                timeout=600 if not thorough else 1200,
                flags=("tokpickle",),
                bounds=f"{tid}: {t.doc}; storage {st}; executor {ek}; the first {nch} scheduling choices symbolic in 0..3 (all completion orders of up to "
                f"4 pending tasks), sizes {'1..' + str(hi) if ((thorough and not big) or tid == 'T1') else '2 per axis'}; values unbounded",
                canaries=("results_paired_by_completion_order",) if (tid, st, ek) == ("T1", "dict", "single") else (),
            )
        )
    acases = [("T1", "dict", 3), ("T4", "dict", 2), ("T8", "file_array", 2), ("T17", "dict", 2)]
    if thorough:
        acases += [(tid, st, 2) for tid in ("T3", "T5", "T12", "T7p") for st in ("dict", "file_array", "mix_file_first")]
    for tid, st, hi in acases:
        t = T[tid]
        obs.append(
            Ob(
                f"async_{tid}_{st}",
                C[:4] + MAP_PARAMS,
                [" and ".join(f"0 <= c{i} <= 3" for i in range(4 if (thorough or tid == "T1") else 3)) + ("" if (thorough or tid == "T1") else " and c3 == 0")] + (tmpl.size_pre(t, hi) if (thorough or tid == "T1") else [" and ".join(f"n{a} == {2 if a < t.axes else 1}" for a in range(3))]),
                f"H.sched_async({tid!r}, {st!r}, c0, c1, c2, c3, {MAP_ARGS})",
                timeout=600,
                flags=("tokpickle",),
                bounds=f"{tid}: map_async with an event-loop-driven executor whose completion order is chosen by 3-4 symbolic ints; storage {st}; sizes 1..{hi}",
            )
        )
    return obs

"""C02 - calling a pipeline equals composing its functions along the DAG."""
from __future__ import annotations

from engine.ob import Ob
from harness import lib as L
from harness import runt
from harness.lib import NoTracing, fail
from harness.runt import R

from pipefunc.exceptions import UnusedParametersError

WHY = L.WHY
OUTSIDE = "> 5 functions, non-integer values, lazy=True (C18), caching (C09), scopes (C10)"
ASSUMPTIONS = ["user functions are distinguishing integer linear forms; all supplied values are unbounded symbolic ints"]

VALS = [(f"v{i}", "int") for i in range(6)]
VARGS = ", ".join(n for n, _ in VALS)


def _outputs(template):
    outs = []
    for fs in template:
        outs.extend(fs.outputs)
        if len(fs.outputs) > 1:
            outs.append(tuple(fs.outputs))
    return outs


def combos(rid, out):
    """arg_combinations(out) equals the independent closure, root_args is its all-roots member (for every listing order)"""
    L.reset()
    t = R[rid]
    prod = runt.producers(t)
    exp = runt.ref_arg_combinations(t, out)
    valid = runt.valid_cuts(t, out)
    for order in runt.orders(len(t)):
        with NoTracing():
            log = []
            p = runt.make(t, log, order=order)
        got = set(p.arg_combinations(out))
        # completeness is not demanded by the statement; it is checked where it is unambiguous (no defaulted
        # parameters, which may or may not be part of a combination)
        if not any(fs.defaults for fs in t) and exp - got:
            return fail("a valid argument combination is not listed")
        for S in got - valid:
            # a listed combination that is not accepted: only the recorded region (a multi-output node listed with an
            # output that the supplied names cut off, F18) is tolerated here; it has its own member
            if not any(len(fs.outputs) > 1 and set(fs.outputs) <= set(S) for fs in t):
                return fail("a listed argument combination is not a valid cut")
        roots = p.root_args(out)
        if tuple(roots) not in got or any(n in prod for n in roots):
            return fail("root_args is not the all-roots combination")
    return True


def call(rid, out, ci, oi, surplus, mode, v0, v1, v2, v3, v4, v5, split_region=False):
    """call with the ci-th valid set of supplied names (functions listed in the oi-th order)"""
    L.reset()
    t = R[rid]
    prod = runt.producers(t)
    vals = (v0, v1, v2, v3, v4, v5)
    with NoTracing():
        log = []
        ords = runt.orders(len(t))
    oi = L.concretize(oi, 0, len(ords) - 1)
    with NoTracing():
        p = runt.make(t, log, order=ords[oi])
        runt.warm(p, out)
        cs = sorted(runt.valid_cuts(t, out))
    ci = L.concretize(ci, 0, len(cs) - 1)
    combo = cs[ci]
    if len(combo) > len(vals):
        return True
    kw = {n: v for n, v in zip(combo, vals)}
    exp, called, used, memo = runt.ref_eval(t, out, kw)
    if surplus:
        kw2 = dict(kw)
        kw2["zzz_unused"] = 1
        try:
            p(out, **kw2)
        except UnusedParametersError:
            return len(log) >= 0
        return fail("surplus keyword accepted")
    mode = L.concretize(mode, 0, 2)
    if mode == 0:
        got = p(out, **kw)
    elif mode == 1:
        full = p.run(out, full_output=True, kwargs=kw)
        got = full[out]
        for name, v in memo.items():
            if name in kw and name in prod and prod[name][1].name in called and not split_region:
                continue  # supplied AND recomputed by its (partially needed) producer: region of known finding F19
            if name in full and not (full[name] == v):
                return fail("full_output value of " + str(name))
        for fs in t:
            if fs.name in called and len(fs.outputs) == 1 and fs.outputs[0] not in full:
                return fail("full_output lacks an intermediate value")
    else:
        got = p.func(out)(**kw)
    if not (got == exp):
        return fail("value differs from the composition")
    if not runt.needed_ok(t, called, list(log), set(kw)):
        return fail("executed functions are not exactly the needed ones, once, dependencies first")
    return True


def func_siblings(rid, o1, o2, v0, v1, v2, v3, v4, v5):
    """Pipeline.func for two different outputs requested from the same pipeline object"""
    L.reset()
    t = R[rid]
    vals = (v0, v1, v2, v3, v4, v5)
    with NoTracing():
        log = []
        p = runt.make(t, log)
        runt.warm(p)
    for out in (o1, o2, o1):
        kw = {a: x for a, x in zip(p.root_args(out), vals)}
        exp, _, _, _ = runt.ref_eval(t, out, kw)
        if not (p.func(out)(**kw) == exp):
            return fail("Pipeline.func(out) differs from the composition")
        if not (p.func(out).call_full_output(**kw)[out] == exp):
            return fail("call_full_output")
    return True


def listed_combo_accepted(rid, out, ci, v0, v1, v2, v3, v4, v5):
    """every combination listed by the real arg_combinations is accepted and yields the composed value"""
    L.reset()
    t = R[rid]
    vals = (v0, v1, v2, v3, v4, v5)
    with NoTracing():
        log = []
        p = runt.make(t, log)
        cs = sorted(p.arg_combinations(out))
    ci = L.concretize(ci, 0, len(cs) - 1)
    if ci >= len(cs):
        return True
    combo = cs[ci]
    if len(combo) > len(vals):
        return True
    kw = {n: v for n, v in zip(combo, vals)}
    exp, called, used, memo = runt.ref_eval(t, out, kw)
    got = p(out, **kw)
    return bool(got == exp) or fail("value")


SPECIALS = [None, 0, False, "", (), [], 0.0]


def run_special(sel, a, mode):
    """a diamond whose shared producer returns a special value (None, 0, False, empty containers) when a == 0:
    it is still a value like any other - evaluated once, routed to both consumers, present in full_output"""
    from pipefunc import PipeFunc, Pipeline

    L.reset()
    sel = L.concretize(sel, 0, len(SPECIALS) - 1)
    mode = L.concretize(mode, 0, 2)
    sp = SPECIALS[sel]
    log = []

    def f(a):
        log.append("f")
        return sp if a == 0 else a

    def g(b):
        log.append("g")
        return 1 if b is None else (2 if not b else 3)

    def h(b):
        log.append("h")
        return 5 if b is None else (6 if not b else 7)

    def k(c, d, b):
        log.append("k")
        return 10 * c + d + (100 if b is None else 0)

    with NoTracing():
        p = Pipeline([PipeFunc(f, "b"), PipeFunc(g, "c"), PipeFunc(h, "d"), PipeFunc(k, "e")])
        runt.warm(p)
    eb = sp if a == 0 else a
    ec = 1 if eb is None else (2 if not eb else 3)
    ed = 5 if eb is None else (6 if not eb else 7)
    exp = 10 * ec + ed + (100 if eb is None else 0)
    if mode == 0:
        got = p("e", a=a)
    elif mode == 1:
        got = p.run("e", kwargs={"a": a})
    else:
        full = p.run("e", kwargs={"a": a}, full_output=True)
        got = full["e"]
        if not (type(full["b"]) is type(eb) and full["b"] == eb and full["c"] == ec and full["d"] == ed):
            return fail("full_output does not hold the intermediate values of the evaluation")
    if not (got == exp):
        return fail("value differs from the composition")
    if sorted(log) != ["f", "g", "h", "k"] or log[0] != "f" or log[-1] != "k":
        return fail("functions were not run exactly once, dependencies first")
    return True


CANARIES = {}


def _canary_default_over_kwarg():
    from pipefunc._pipeline._base import Pipeline

    orig = Pipeline._get_func_args

    def gfa(self, func, flat_scope_kwargs, all_results, full_output, used_parameters):
        fa = orig(self, func, flat_scope_kwargs, all_results, full_output, used_parameters)
        for arg in func.parameters:
            if arg in self.defaults and arg in flat_scope_kwargs and arg not in func._bound and len(func.parameters) == 3:
                fa[arg] = self.defaults[arg]
        return fa

    Pipeline._get_func_args = gfa


CANARIES["default_beats_kwarg_in_ternary_functions"] = _canary_default_over_kwarg


def obligations(tier):
    thorough = tier == "thorough"
    obs = []
    rids = ["R1", "R2", "R3", "R4", "R5", "R7", "R8", "R9", "R10", "R11", "R16"] if not thorough else list(R)
    for rid in rids:
        t = R[rid]
        for out in _outputs(t):
            oid = "_".join(out) if isinstance(out, tuple) else out
            nc = len(runt.valid_cuts(t, out))
            no = len(runt.orders(len(t)))
            obs.append(Ob(f"combos_{rid}_{oid}", [("x", "int")], [], f"H.combos({rid!r}, {out!r})", timeout=120,
                          bounds=f"{rid}: arg_combinations/root_args of {out} for all {no} listing orders"))  # fmt: skip
            if isinstance(out, tuple) and not thorough:
                continue
            obs.append(
                Ob(
                    f"call_{rid}_{oid}",
                    [("ci", "int"), ("oi", "int"), ("surplus", "bool"), ("mode", "int")] + VALS,
                    [f"0 <= ci < {nc}", f"0 <= oi < {no if thorough else min(no, 6)}", "0 <= mode <= 2"],
                    f"H.call({rid!r}, {out!r}, ci, oi, surplus, mode, {VARGS})",
                    timeout=300 if not thorough else 1200,
                    bounds=f"{rid}: output {out}; every valid set of supplied names ({nc}: roots, interior cuts, mixed); listing orders; pipeline(...) / run(full_output) / func(); "
                    "optional surplus keyword; values unbounded",
                    canaries=("default_beats_kwarg_in_ternary_functions",) if (rid, out) == ("R5", "w") else (),
                )
            )
    obs.append(
        Ob(
            "full_output_split_R3",
            [("ci", "int")] + VALS,
            ["0 <= ci < %d" % len(runt.valid_cuts(R["R3"], "z"))],
            f"H.call('R3', 'z', ci, 0, False, 1, {VARGS}, split_region=True)",
            timeout=120,
            bounds="R3: run(full_output=True) when one output of the multi-output node is supplied and the other computed (region of known finding F19)",
        )
    )
    for rid, o1, o2 in (("R3", "d", "e"), ("R7", "p", "q"), ("R7", "q", ("p", "q")), ("R10", "q", "p"), ("R11", "p", "q")):
        oid = lambda o: "_".join(o) if isinstance(o, tuple) else o  # noqa: E731
        obs.append(
            Ob(f"funcsib_{rid}_{oid(o1)}_{oid(o2)}", VALS, [], f"H.func_siblings({rid!r}, {o1!r}, {o2!r}, {VARGS})", timeout=120,
               bounds=f"{rid}: Pipeline.func requested for {o1}, then {o2}, then {o1} again on one pipeline object")  # fmt: skip
        )
    # the recorded finding: a listed combination that is not accepted (tuple-output diamond)
    nc = 0
    obs.append(
        Ob(
            "listed_R3_z",
            [("ci", "int")] + VALS,
            ["0 <= ci <= 12"],
            f"H.listed_combo_accepted('R3', 'z', ci, {VARGS})",
            timeout=120,
            bounds="R3: every combination listed by the real arg_combinations('z') is called (region of known finding F18)",
        )
    )
    obs.append(
        Ob(
            "run_special",
            [("sel", "int"), ("a", "int"), ("mode", "int")],
            [f"0 <= sel < {len(SPECIALS)}", "0 <= mode <= 2"],
            "H.run_special(sel, a, mode)",
            timeout=120,
            bounds="diamond with a third edge whose shared producer returns None / 0 / False / '' / () / [] / 0.0 when a == 0 (a unbounded): pipeline(...), run, "
            "run(full_output=True): composed value, every function exactly once, intermediates present",
        )
    )
    return obs
